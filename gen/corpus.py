#!/usr/bin/python3
# Seeded corpus generator (stdlib only). Emits Rust source for harness/rtc:
#   - type expressions over the built-in constructors (core corpus + seeded part) with their
#     canonical identities (R9, from the statement of C05);
#   - generated struct/enum definitions with attributes (C03 / C09 grammar), their instantiations,
#     Sample / Model impls and declaration models.
# It never looks at derive output.
import json
import random
import sys
sys.setrecursionlimit(20000)

PRIMS_U = ["u8", "u16", "u32", "u64", "u128"]
PRIMS_I = ["i8", "i16", "i32", "i64", "i128"]
NONZERO = ["NonZeroU8", "NonZeroU16", "NonZeroU32", "NonZeroU64", "NonZeroU128",
           "NonZeroI8", "NonZeroI16", "NonZeroI32", "NonZeroI64", "NonZeroI128"]
WRAP = {"box": "Box<%s>", "rc": "Rc<%s>", "arc": "Arc<%s>", "ref": "&'static %s", "refmut": "&'static mut %s"}


class T:
    """type expression"""

    def __init__(self, kind, args=(), extra=None):
        self.kind, self.args, self.extra = kind, list(args), extra

    # ---- Rust text
    def rust(self):
        k, a = self.kind, self.args
        if k in ("prim", "nonzero", "raw"):
            return self.extra
        if k == "char":
            return "char"
        if k == "string":
            return "String"
        if k == "str_ref":
            return "&'static str"
        if k == "unit":
            return "()"
        if k == "duration":
            return "Duration"
        if k == "array":
            return "[%s; %d]" % (a[0].rust(), self.extra)
        if k == "tuple":
            return "(" + ", ".join(x.rust() for x in a) + ",)"
        if k == "vec":
            return "Vec<%s>" % a[0].rust()
        if k == "vecdeque":
            return "VecDeque<%s>" % a[0].rust()
        if k == "slice_ref":
            return "&'static [%s]" % a[0].rust()
        if k == "box_slice":
            return "Box<[%s]>" % a[0].rust()
        if k == "btreeset":
            return "BTreeSet<%s>" % a[0].rust()
        if k == "binaryheap":
            return "BinaryHeap<%s>" % a[0].rust()
        if k == "btreemap":
            return "BTreeMap<%s, %s>" % (a[0].rust(), a[1].rust())
        if k == "option":
            return "Option<%s>" % a[0].rust()
        if k == "result":
            return "Result<%s, %s>" % (a[0].rust(), a[1].rust())
        if k == "cow":
            return "Cow<'static, %s>" % a[0].rust()
        if k == "cow_str":
            return "Cow<'static, str>"
        if k == "cow_slice":
            return "Cow<'static, [%s]>" % a[0].rust()
        if k in WRAP:
            return WRAP[k] % a[0].rust()
        if k == "compact":
            return "Compact<%s>" % a[0].rust()
        if k == "range":
            return "Range<%s>" % a[0].rust()
        if k == "rangeinc":
            return "RangeInclusive<%s>" % a[0].rust()
        if k == "phantom":
            return "PhantomData<%s>" % a[0].rust()
        if k == "bitvec":
            return "BitVec<%s, %s>" % (self.extra[0], self.extra[1])
        if k == "def":
            name = self.extra["path"]
            if a:
                return "%s<%s>" % (name, ", ".join(x.rust() for x in a))
            return name
        raise ValueError(k)

    # ---- canonical identity, aliases resolved at the top only
    def shallow(self):
        k, a = self.kind, self.args
        if k in WRAP:
            return a[0].shallow()
        if k in ("vec", "vecdeque", "slice_ref", "box_slice"):
            return "[%s]" % a[0].rust()
        if k in ("string", "str_ref"):
            return "str"
        if k == "phantom":
            return "PhantomData"
        if k == "def" and self.extra.get("alias_of"):
            return self.extra["alias_of"]
        return self.rust()

    # ---- canonical identity, aliases resolved at every level
    def deep(self):
        k, a = self.kind, self.args
        if k in WRAP:
            return a[0].deep()
        if k in ("vec", "vecdeque", "slice_ref", "box_slice"):
            return "[%s]" % a[0].deep()
        if k in ("string", "str_ref"):
            return "str"
        if k == "phantom":
            return "PhantomData"
        if k == "def" and self.extra.get("alias_of"):
            return self.extra["alias_of"]
        if not a:
            return self.rust()
        if k == "array":
            return "[%s; %d]" % (a[0].deep(), self.extra)
        if k == "tuple":
            return "(" + ",".join(x.deep() for x in a) + ",)"
        if k == "def":
            return "%s<%s>" % (self.extra["path"], ",".join(x.deep() for x in a))
        if k == "cow_slice":
            return "Cow<[%s]>" % a[0].deep()
        return "%s<%s>" % (k, ",".join(x.deep() for x in a))

    # ---- capabilities
    def enc(self):
        k, a = self.kind, self.args
        if k == "char":
            return False
        if k == "tuple":
            return len(a) <= 18 and all(x.enc() for x in a)
        if k == "def":
            return self.extra.get("enc", False) and all(x.enc() for x in a)
        if k == "raw":
            return False
        return all(x.enc() for x in a)

    def ord(self):
        k, a = self.kind, self.args
        if k in ("binaryheap", "range", "rangeinc", "def", "bitvec", "raw", "cow", "cow_str", "cow_slice", "duration", "char"):
            return k in ("duration", "char")
        if k == "tuple":
            return len(a) <= 12 and all(x.ord() for x in a)
        return all(x.ord() for x in a)

    def alias_layers(self):
        k = self.kind
        if k in WRAP:
            return 1 + self.args[0].alias_layers()
        if k in ("vec", "vecdeque", "string", "phantom"):
            return 1
        if k in ("slice_ref", "box_slice", "str_ref"):
            return 1
        if k == "def" and self.extra.get("alias_of"):
            return 1
        return 0

    def has_bitvec(self):
        return self.kind == "bitvec" or any(x.has_bitvec() for x in self.args)

    def depth(self):
        return 1 + max([x.depth() for x in self.args], default=0)


def P(n):
    return T("prim", extra=n)


UNIT = T("unit")
U8, U16, U32, U64, U128, BOOL = P("u8"), P("u16"), P("u32"), P("u64"), P("u128"), P("bool")
STRING, STR = T("string"), T("str_ref")

HAND = {
    # name -> (enc, alias_of)
    "SelfRec": (False, None), "MutA": (False, None), "MutB": (False, None), "Cyc1": (False, None), "Cyc2": (False, None),
    "Cyc3": (False, None), "OnlyAsParam": (False, None), "ParamOnly": (False, None), "PCycA": (False, None), "PCycB": (False, None),
    "Shared": (False, None), "Left": (False, None), "Right": (False, None), "Top": (False, None), "SharedTwin": (False, None),
    "SharedAlias": (False, "vcommon::hand::Shared"), "NamedPrim": (False, None), "HandBits": (False, None), "HandBitsMsb": (False, None),
    "LocalA": (False, None), "LocalB": (False, None),
    "FaultyLeaf": (False, None), "FaultyGood": (False, None), "FaultyParent": (False, None),
    "MixedFields": (False, None), "MixedVariant": (False, None),
}


def hand(name):
    enc, alias = HAND[name]
    return T("def", extra={"path": "vcommon::hand::" + name, "enc": enc, "alias_of": alias})


def core_types():
    """Seed independent. Designed for coverage of every impl family named in C04 / C05."""
    out = []
    # tuples that repeat an element type, placed first so that their members are first met through the tuple
    out += [T("tuple", [hand("MutA"), hand("Cyc1"), hand("MutA")]), T("tuple", [hand("Top"), hand("SelfRec"), hand("Top"), hand("SelfRec"), hand("ParamOnly")]),
            T("tuple", [hand("LocalB"), hand("LocalA"), hand("LocalB")])]
    prims = [P(n) for n in ["bool"] + PRIMS_U + PRIMS_I]
    out += prims
    out += [T("char"), STRING, STR, UNIT, T("duration")]
    out += [T("nonzero", extra=n) for n in NONZERO]
    # arrays
    for n in [0, 1, 2, 3, 31, 32, 33, 64, 256, 1000]:
        out.append(T("array", [U8], n))
    out += [T("array", [U32], 2), T("array", [STRING], 3), T("array", [T("option", [U16])], 33), T("array", [T("array", [U8], 2)], 3),
            T("array", [T("char")], 2), T("array", [UNIT], 5), T("array", [T("tuple", [U8, BOOL])], 2)]
    # tuples of arity 1..20
    cyc = [U8, U16, BOOL, U32, STRING, P("i8"), U64, P("i64")]
    for ar in range(1, 21):
        out.append(T("tuple", [cyc[i % len(cyc)] for i in range(ar)]))
    out += [T("tuple", [T("phantom", [U8]), U8]), T("tuple", [T("phantom", [U8])]), T("tuple", [U8, T("phantom", [STRING]), T("phantom", [U16]), U16]),
            T("tuple", [T("tuple", [U8, U16]), T("tuple", [UNIT])])]
    # sequences and their aliases
    for e in [U8, U32, STRING, T("option", [U8]), T("tuple", [U8, U16]), UNIT, T("vec", [U8])]:
        out += [T("vec", [e]), T("vecdeque", [e]), T("slice_ref", [e]), T("box_slice", [e])]
    out += [T("btreeset", [U8]), T("btreeset", [STRING]), T("btreeset", [T("tuple", [U8, U8])]), T("binaryheap", [U16]), T("binaryheap", [STRING]),
            T("btreemap", [U8, STRING]), T("btreemap", [STRING, T("vec", [U8])]), T("btreemap", [T("tuple", [U8, U16]), T("option", [U8])]),
            T("btreemap", [U32, T("btreemap", [U8, U8])])]
    # option / result
    for e in [U8, STRING, UNIT, T("vec", [U8]), T("option", [U8]), T("box", [U8])]:
        out.append(T("option", [e]))
    out += [T("result", [U8, STRING]), T("result", [UNIT, UNIT]), T("result", [T("option", [U8]), T("result", [U8, U8])]), T("result", [T("vec", [U8]), U128])]
    # transparent wrappers, nested wrappers, wrappers of aliases
    for w in WRAP:
        for e in [U8, STRING, T("vec", [U8]), T("option", [U8]), T("array", [U8], 4), T("tuple", [U8, U16])]:
            out.append(T(w, [e]))
    out += [T("box", [T("box", [U8])]), T("rc", [T("box", [STRING])]), T("arc", [T("rc", [T("box", [U8])])]), T("ref", [T("ref", [U32])]),
            T("box", [T("ref", [T("vec", [U8])])]), T("refmut", [T("box", [U16])]), T("box", [STR]), T("rc", [STR]), T("arc", [T("slice_ref", [U8])]),
            T("box", [T("phantom", [U8])]), T("box", [T("vecdeque", [U8])])]
    # Cow
    out += [T("cow_str"), T("cow_slice", [U8]), T("cow_slice", [STRING]), T("cow", [U8]), T("cow", [STRING]), T("cow", [T("vec", [U8])]), T("cow", [T("option", [U16])]),
            T("cow", [T("tuple", [U8, U16])])]
    # Compact
    out += [T("compact", [P(n)]) for n in PRIMS_U] + [T("compact", [UNIT])]
    out += [T("vec", [T("compact", [U32])]), T("option", [T("compact", [U64])]), T("tuple", [T("compact", [U8]), T("compact", [U128])])]
    # ranges
    for e in [U8, U32, U64, P("i16"), P("i128")]:
        out += [T("range", [e]), T("rangeinc", [e])]
    # PhantomData
    out += [T("phantom", [e]) for e in [U8, STRING, UNIT, T("vec", [U8]), T("phantom", [U8])]]
    out += [T("vec", [T("phantom", [U8])]), T("option", [T("phantom", [U16])]), T("array", [T("phantom", [U8])], 3)]
    # BitVec
    for s in ["u8", "u16", "u32", "u64"]:
        for o in ["Lsb0", "Msb0"]:
            out.append(T("bitvec", extra=(s, o)))
    out += [T("vec", [T("bitvec", extra=("u8", "Msb0"))]), T("option", [T("bitvec", extra=("u16", "Lsb0"))]), T("tuple", [T("bitvec", extra=("u32", "Lsb0")), U8])]
    out += [T("raw", extra="Lsb0"), T("raw", extra="Msb0")]
    # hand-written definitions
    out += [hand(n) for n in HAND]
    out += [T("box", [hand("SelfRec")]), T("vec", [hand("MutA")]), T("option", [hand("Top")]), T("rc", [hand("Shared")]), T("box", [hand("SharedAlias")]),
            T("tuple", [hand("Left"), hand("Right")]), T("array", [hand("Cyc2")], 2), T("btreemap", [U8, hand("ParamOnly")])]
    # Compact of hand-written (instrumented) types: evaluation counting reaches through Compact
    out += [T("compact", [hand("Shared")]), T("compact", [hand("NamedPrim")]), T("vec", [hand("NamedPrim")]), T("tuple", [hand("Shared"), hand("SharedTwin")])]
    # both bit orders over one store in one type
    for st in ["u8", "u32"]:
        out += [T("tuple", [T("bitvec", extra=(st, "Lsb0")), T("bitvec", extra=(st, "Msb0"))]), T("tuple", [T("bitvec", extra=(st, "Msb0")), T("bitvec", extra=(st, "Lsb0"))])]
    # array and sequence of one element type, two array lengths of one element type
    out += [T("tuple", [T("array", [U8], 4), T("vec", [U8])]), T("tuple", [T("vec", [U16]), T("array", [U16], 2), T("array", [U16], 3)]), T("tuple", [T("range", [U32]), T("rangeinc", [U32])]),
            T("tuple", [T("rangeinc", [U8]), T("range", [U8])])]
    # deep nesting
    d = U8
    for i in range(6):
        d = [T("vec", [d]), T("option", [d]), T("box", [d]), T("tuple", [d, U8]), T("array", [d], 2), T("result", [d, STRING])][i]
    out.append(d)
    # different identities whose definitions are built by identical code (only a PhantomData argument differs)
    out += [T("tuple", [U8, T("phantom", [U16])]), T("tuple", [U8, T("phantom", [STRING])]), T("array", [T("phantom", [U8])], 2), T("array", [T("phantom", [U16])], 2),
            T("vec", [T("phantom", [U16])]), T("option", [T("phantom", [STRING])]), T("result", [T("phantom", [U8]), T("phantom", [U16])]), T("result", [T("phantom", [U16]), T("phantom", [U8])])]
    # very deep nesting (registration recursion depth 40 and 70; Box is transparent and does not add a level)
    for depth in (40, 70, 130, 300):
        # the two deepest ones end in `char` so that no value-level machinery is instantiated for them
        d = U16 if depth <= 70 else T("char")
        for i in range(depth):
            # every fifth level branches: the sibling is a type nothing else mentions, first met after the deep part
            d = [T("option", [d]), T("vec", [d]), T("tuple", [d, T("array", [P("i16")], 1000 + depth + i)]), T("array", [d], 1), T("option", [T("box", [d])])][i % 5]
        out.append(d)
    # beyond 1024 levels (a plain alternation of Option and Vec, ending in char so that no value machinery is instantiated)
    d = T("char")
    for i in range(1100):
        d = T("option", [d]) if i % 2 == 0 else T("vec", [d])
    out.append(d)
    # PhantomData first, then several real members
    out += [T("tuple", [T("phantom", [U8]), U8, U16, STRING]), T("tuple", [U8, T("phantom", [U8]), U16, U32, BOOL]), T("tuple", [T("phantom", [U8]), T("phantom", [U16]), U8, U16, U32])]
    # a user type that is merely *named* PhantomData is an ordinary member
    up = lambda e: T("def", [e], {"path": "vcommon::hand::units::PhantomData", "enc": True, "alias_of": None})
    out += [up(U8), T("tuple", [up(U8), U16]), T("tuple", [T("phantom", [U8]), up(U16), U8]), T("vec", [up(STRING)]), T("option", [up(U32)]), T("array", [up(BOOL)], 2)]
    return out


class Gen:
    def __init__(self, seed):
        self.r = random.Random(seed)

    def leaf(self, need_ord=False, need_enc=False):
        r = self.r
        c = [P(r.choice(["bool"] + PRIMS_U + PRIMS_I)), STRING, UNIT, T("nonzero", extra=r.choice(NONZERO)), P(r.choice(PRIMS_U)), STR]
        if not need_ord:
            c += [T("compact", [P(r.choice(PRIMS_U))]), T("duration")]
        if not need_enc and not need_ord:
            c += [T("char"), hand(r.choice(list(HAND)))]
        return r.choice(c)

    def ty(self, depth, need_ord=False, need_enc=False, allow_bitvec=True):
        r = self.r
        if depth <= 0 or r.random() < 0.15:
            return self.leaf(need_ord, need_enc)
        sub = lambda **kw: self.ty(depth - 1, need_ord=kw.get("o", need_ord), need_enc=need_enc, allow_bitvec=allow_bitvec)
        kinds = ["array", "tuple", "vec", "vecdeque", "slice_ref", "box_slice", "btreeset", "btreemap", "option", "result", "box", "rc", "arc", "ref", "refmut", "phantom"]
        if not need_ord:
            kinds += ["binaryheap", "range", "rangeinc", "cow"]
            if allow_bitvec:
                kinds += ["bitvec"]
        k = r.choice(kinds)
        if k == "array":
            return T("array", [sub()], r.choice([0, 1, 2, 3, 4, 33]))
        if k == "tuple":
            n = r.choice([1, 2, 2, 3, 4, 5])
            ms = [sub() for _ in range(n)]
            if r.random() < 0.15:
                ms.insert(r.choice([0, 0, len(ms) // 2]), T("phantom", [self.leaf(need_ord, need_enc)]))
            return T("tuple", ms)
        if k in ("btreeset", "binaryheap"):
            return T(k, [sub(o=True)])
        if k == "btreemap":
            return T(k, [sub(o=True), sub()])
        if k == "result":
            return T(k, [sub(), sub()])
        if k in ("range", "rangeinc"):
            return T(k, [P(r.choice(PRIMS_U + PRIMS_I))])
        if k == "cow":
            c = r.choice(["str", "slice", "sized"])
            if c == "str":
                return T("cow_str")
            if c == "slice":
                return T("cow_slice", [P(r.choice(PRIMS_U))])
            return T("cow", [r.choice([U8, STRING, T("vec", [U8]), T("option", [U16]), T("tuple", [U8, BOOL])])])
        if k == "bitvec":
            return T("bitvec", extra=(r.choice(["u8", "u16", "u32", "u64"]), r.choice(["Lsb0", "Msb0"])))
        return T(k, [sub()])


def rust_str(s):
    out = '"'
    for ch in s:
        o = ord(ch)
        if ch == '"':
            out += '\\"'
        elif ch == "\\":
            out += "\\\\"
        elif ch == "\n":
            out += "\\n"
        elif ch == "\t":
            out += "\\t"
        elif ch == "\r":
            out += "\\r"
        elif o < 0x20 or o == 0x7f:
            out += "\\u{%x}" % o
        else:
            out += ch
    return out + '"'


def emit_entries(types, core_n, defs_entries):
    lines = []
    seen = set()
    for i, t in enumerate(types):
        txt = t.rust()
        if txt in seen:
            continue
        seen.add(txt)
        enc = "enc" if t.enc() else "noenc"
        lines.append("        vcommon::entry!(%s, %s, %s, %d, %s, false, %s)," % (txt, rust_str(t.shallow()), rust_str(t.deep()), t.alias_layers(), enc, ("true" if i < core_n else "false") + ', ""'))
    for (txt, sh, dp, enc, tags) in defs_entries:
        lines.append("        vcommon::entry!(%s, %s, %s, 0, %s, true, true, %s)," % (txt, rust_str(sh), rust_str(dp), "enc" if enc else "noenc", rust_str(tags)))
    return lines


def main():
    import defs  # generated definitions (stage B)
    seed = int(sys.argv[1])
    tier = sys.argv[2]
    outdir = sys.argv[3]
    n_seeded = 700 if tier == "thorough" else 180
    g = Gen(seed)
    core = core_types()
    types = list(core)
    for _ in range(n_seeded):
        types.append(g.ty(g.r.choice([1, 2, 2, 3, 3, 4])))
    dg = defs.DefGen(seed, tier, g)
    def_src, def_entries, decl_src, stats = dg.generate()
    lines = emit_entries(types, len(core), def_entries)
    with open(outdir + "/corpus.rs", "w") as fh:
        fh.write("// @generated by gen/corpus.py seed=%d tier=%s\n" % (seed, tier))
        fh.write("#[allow(unused_imports, dead_code, non_camel_case_types, non_snake_case, clippy::all)]\npub mod g {\n")
        fh.write("    use super::prelude::*;\n")
        fh.write(def_src)
        fh.write("}\n\n")
        fh.write("pub fn entries() -> Vec<vcommon::corpus::Entry> {\n    use prelude::*;\n    vec![\n")
        fh.write("\n".join(lines))
        fh.write("\n    ]\n}\n\n")
        fh.write(decl_src)
    # feature-fingerprint corpus (C15): definitions + MetaType thunks only, nothing from the harness library
    with open(outdir + "/fp_corpus.rs", "w") as fh:
        fh.write("// @generated by gen/corpus.py seed=%d tier=%s\n" % (seed, tier))
        fh.write("#[allow(unused_imports, dead_code, non_camel_case_types, non_snake_case)]\npub mod g {\n    use super::prelude::*;\n")
        fh.write(dg.fp_src)
        fh.write("}\n\n")
        base, bv = [], []
        seen = set()
        for t in types:
            txt = t.rust()
            if txt in seen:
                continue
            seen.add(txt)
            (bv if (t.has_bitvec() or txt in ("Lsb0", "Msb0")) else base).append(txt)
        for (txt, _sh, _dp, _enc, tags) in def_entries:
            (bv if "bitvec_member" in tags else base).append(txt)
        for name, lst, cfg in (("metas", base, ""), ("metas_bitvec", bv, '#[cfg(feature = "bit-vec")]\n')):
            fh.write("%spub fn %s() -> Vec<(&'static str, scale_info::MetaType)> {\n    use prelude::*;\n    vec![\n" % (cfg, name))
            for txt in lst:
                fh.write("        (%s, scale_info::meta_type::<%s>()),\n" % (rust_str(txt), txt))
            fh.write("    ]\n}\n\n")
    with open(outdir + "/corpus.json", "w") as fh:
        json.dump({"seed": seed, "tier": tier, "type_expressions": len(lines), "core": len(core), "defs": stats}, fh)


if __name__ == "__main__":
    # run as module `corpus` so that defs.py and this file share one set of classes
    import corpus
    corpus.main()
