#!/usr/bin/python3
# Program generator for C13 (positive programs that must compile and be usable) and
# C20 (negative programs that must not compile, each with a positive twin). stdlib only.
# Output: <outdir>/<kind>/<name>.rs and <outdir>/<kind>.json (the expectation log).
import json
import os
import random
import re
import sys

HEADER = """#![allow(dead_code, unused_imports, unused_variables, non_camel_case_types)]
use scale_info::{meta_type, TypeInfo, Type, Path, MetaType, TypeParameter, Field, Variant};
use scale_info::build::{Fields, FieldBuilder, Variants, VariantBuilder, TypeBuilder, FieldsBuilder};
use scale_info::form::{MetaForm, PortableForm};
use scale::{Compact, HasCompact};
use std::marker::PhantomData;
use std::collections::BTreeMap;
"""

HELPERS = """
/// no TypeInfo on purpose
pub struct NoInfo;
pub struct NoInfoOf<T>(pub T);
pub trait Tr { type A; type N; }
#[derive(TypeInfo)]
pub struct Impl;
impl Tr for Impl { type A = u16; type N = u64; }
/// implements Tr but has no TypeInfo itself
pub struct ImplNoInfo;
impl Tr for ImplNoInfo { type A = bool; type N = u32; }
/// traits that take type arguments themselves
pub trait Convert<X> { type Out; }
impl<X> Convert<X> for u64 { type Out = Vec<X>; }
pub trait Currency<B> { type Imbalance; }
pub struct Native;
impl<B> Currency<B> for Native { type Imbalance = Option<B>; }
/// a trait that has TypeInfo as a supertrait
pub trait Member: scale_info::TypeInfo + 'static {}
impl Member for u8 {}
impl Member for String {}
pub trait Chain: scale_info::TypeInfo + 'static { type Balance; }
impl Chain for Impl { type Balance = u128; }
"""


class Pos:
    """one positive program: a definition plus instantiations with the expected Some/None pattern of its parameters"""

    def __init__(self, name, body, insts, tags):
        self.name, self.body, self.insts, self.tags = name, body, insts, tags

    def source(self):
        header = HEADER
        if "names_like_scale_info_items" in self.tags:
            header = "#![allow(dead_code, unused_imports, unused_variables, non_camel_case_types)]\nuse scale_info::TypeInfo;\nuse std::marker::PhantomData;\n"
        if "first_derive" in self.tags:
            # the definition under test holds the first derive of the crate (the helpers with their own derive come after it)
            s = header + "\n// BEGIN-DEF\n" + self.body + "\n// END-DEF\n" + HELPERS + "\n\npub fn observe() -> Vec<(&'static str, Vec<(String, bool)>)> {\n    let mut out = Vec::new();\n"
            for inst, _pattern in self.insts:
                s += "    {\n        let t: scale_info::Type = <%s as TypeInfo>::type_info();\n" % inst
                s += "        out.push((%s, t.type_params.iter().map(|p| (p.name.to_string(), p.ty.is_some())).collect()));\n    }\n" % json.dumps(inst)
            s += "    out\n}\n"
            return s
        s = header + HELPERS + "\n// BEGIN-DEF\n" + self.body + "\n// END-DEF\n\npub fn observe() -> Vec<(&'static str, Vec<(String, bool)>)> {\n    let mut out = Vec::new();\n"
        for inst, _pattern in self.insts:
            s += "    {\n        let m: scale_info::MetaType = scale_info::meta_type::<%s>();\n        let t: scale_info::Type = <%s as TypeInfo>::type_info();\n        let _ = m;\n" % (inst, inst)
            s += "        out.push((%s, t.type_params.iter().map(|p| (p.name.to_string(), p.ty.is_some())).collect()));\n    }\n" % json.dumps(inst)
        s += "    out\n}\n"
        return s


def positives(seed, n_seeded):
    r = random.Random(seed * 31 + 7)
    out = []
    k = [0]

    def add(body, insts, tags):
        k[0] += 1
        out.append(Pos("p%03d" % k[0], body, insts, tags))

    def shapes(name, generics, where, members, attrs="", variants_extra=None):
        """the same member list as named struct, tuple struct and enum with named / unnamed variants"""
        res = []
        named = "\n".join("    %s%s: %s," % (a, chr(ord('a') + i), t) for i, (a, t) in enumerate(members))
        unnamed = "\n".join("    %s%s," % (a, t) for (a, t) in members)
        res.append(("#[derive(TypeInfo)]\n%spub struct %s%s %s {\n%s\n}" % (attrs, name, generics, where, named), "struct_named"))
        res.append(("#[derive(TypeInfo)]\n%spub struct %s%s (\n%s\n) %s;" % (attrs, name, generics, unnamed, where), "struct_tuple"))
        ev = "\n".join("        %s%s: %s," % (a.replace("\n", "\n    "), chr(ord('a') + i), t) for i, (a, t) in enumerate(members))
        res.append(("#[derive(TypeInfo)]\n%spub enum %s%s %s {\n    First,\n    Second {\n%s\n    },\n%s}" % (attrs, name, generics, where, ev, variants_extra or ""), "enum_named"))
        eu = "\n".join("        %s%s," % (a, t) for (a, t) in members)
        res.append(("#[derive(TypeInfo)]\n%spub enum %s%s %s {\n    Only(\n%s\n    ),\n%s}" % (attrs, name, generics, where, eu, variants_extra or ""), "enum_tuple"))
        return res

    def each(name, generics, where, members, insts, tags, attrs="", variants_extra=None, only=None):
        for body, shape in shapes(name, generics, where, members, attrs, variants_extra):
            if only and shape not in only:
                continue
            add(body, insts, tags + [shape])

    S, N = True, False
    # 1. parameters used directly / in built-in containers
    each("S", "<T>", "", [("", "T")], [("S<u8>", [("T", S)]), ("S<Vec<Option<String>>>", [("T", S)])], ["direct"])
    each("S", "<T, U>", "", [("", "T"), ("", "Vec<U>"), ("", "Option<T>"), ("", "Box<U>"), ("", "[T; 3]"), ("", "(T, U)"), ("", "BTreeMap<T, U>")],
         [("S<u8, String>", [("T", S), ("U", S)]), ("S<bool, (u8, u16)>", [("T", S), ("U", S)])], ["containers"])
    # 2. PhantomData + skip_type_params: the argument needs no type info
    each("S", "<T>", "", [("", "PhantomData<T>"), ("", "u8")], [("S<NoInfo>", [("T", N)]), ("S<u8>", [("T", N)])], ["phantom", "skip_type_params"], attrs="#[scale_info(skip_type_params(T))]\n")
    each("S", "<T, U>", "", [("", "PhantomData<T>"), ("", "U")], [("S<NoInfo, u8>", [("T", N), ("U", S)])], ["phantom", "skip_type_params"], attrs="#[scale_info(skip_type_params(T))]\n")
    each("S", "<T, U>", "", [("", "PhantomData<(T, U)>")], [("S<NoInfo, ImplNoInfo>", [("T", N), ("U", N)])], ["phantom", "skip_type_params", "skip_all"], attrs="#[scale_info(skip_type_params(T, U))]\n")
    each("S", "<T>", "", [("", "PhantomData<T>")], [("S<u32>", [("T", S)])], ["phantom"])
    # 3. associated types
    each("S", "<T: Tr>", "", [("", "T::A"), ("", "Vec<T::A>")], [("S<Impl>", [("T", S)])], ["assoc"])
    each("S", "<T: Tr>", "", [("", "<T as Tr>::A"), ("", "Option<<T as Tr>::N>")], [("S<Impl>", [("T", S)])], ["assoc", "qualified"])
    each("S", "<T>", "where T: Tr", [("", "T::A")], [("S<Impl>", [("T", S)])], ["assoc", "where_clause"])
    each("S", "<T: Tr>", "", [("", "T::A"), ("", "<T as Tr>::N")], [("S<ImplNoInfo>", [("T", N)]), ("S<Impl>", [("T", N)])], ["assoc", "skip_type_params"], attrs="#[scale_info(skip_type_params(T))]\n")
    # 4. self-referential positions
    each("S", "<T>", "", [("", "Option<Box<S<T>>>"), ("", "T")], [("S<u8>", [("T", S)])], ["recursive"])
    each("S", "<T, U>", "", [("", "Vec<S<T, U>>"), ("", "T"), ("", "PhantomData<U>")], [("S<u8, NoInfo>", [("T", S), ("U", N)])], ["recursive", "skip_type_params"], attrs="#[scale_info(skip_type_params(U))]\n")
    each("S", "<T>", "", [("", "Option<Box<Self>>"), ("", "T")], [("S<u8>", [("T", S)])], ["recursive", "Self"], only=["struct_named", "struct_tuple"])
    # 5. lifetimes, const parameters, defaults, where clauses
    each("S", "<'a, T>", "", [("", "&'a T"), ("", "&'a str")], [("S<'static, u8>", [("T", S)])], ["lifetime"])
    each("S", "<'a, 'b, T>", "", [("", "&'a [T]"), ("", "PhantomData<&'b u8>")], [("S<'static, 'static, u16>", [("T", S)])], ["lifetime"])
    each("S", "<T, const N: usize>", "", [("", "[T; N]")], [("S<u8, 4>", [("T", S)]), ("S<String, 0>", [("T", S)])], ["const_param"])
    each("S", "<const N: usize>", "", [("", "[u8; N]")], [("S<7>", [])], ["const_param"])
    each("S", "<T = u8, U = T>", "", [("", "T"), ("", "U")], [("S", [("T", S), ("U", S)]), ("S<u16>", [("T", S), ("U", S)])], ["default"])
    each("S", "<T: Clone + Default, U>", "where U: core::fmt::Debug", [("", "T"), ("", "Vec<U>")], [("S<u8, String>", [("T", S), ("U", S)])], ["bounds_in_decl", "where_clause"])
    # 6. explicit bounds replace the generated ones
    each("S", "<T>", "", [("", "T")], [("S<u8>", [("T", S)])], ["bounds_attr"], attrs="#[scale_info(bounds(T: TypeInfo + 'static))]\n")
    each("S", "<T: Tr>", "", [("", "T::A")], [("S<ImplNoInfo>", [("T", N)])], ["bounds_attr", "skip_type_params", "assoc"],
         attrs="#[scale_info(bounds(T::A: TypeInfo + 'static), skip_type_params(T))]\n")
    each("S", "<'a, T>", "", [("", "&'a T")], [("S<'static, u8>", [("T", S)])], ["bounds_attr", "lifetime"], attrs="#[scale_info(bounds('a: 'static, T: TypeInfo + 'static))]\n")
    each("S", "<T, U>", "", [("", "T"), ("", "PhantomData<U>")], [("S<u8, NoInfo>", [("T", S), ("U", N)])], ["bounds_attr", "skip_type_params"],
         attrs="#[scale_info(bounds(T: TypeInfo + 'static))]\n#[scale_info(skip_type_params(U))]\n")
    # explicit bounds that are weaker than what would be generated: with bounds(..) nothing else is added, so a field type
    # that needs no bound at all (not generic) must not acquire one
    each("S", "<T>", "", [("", "PhantomData<T>"), ("", "u8")], [("S<NoInfo>", [("T", N)])], ["bounds_attr", "skip_type_params"], attrs="#[scale_info(bounds(), skip_type_params(T))]\n")
    # explicit bounds together with a where clause of the definition itself: the where clause must be kept
    each("S", "<T>", "where T: Tr", [("", "T::A")], [("S<Impl>", [("T", S)])], ["bounds_attr", "where_clause", "bounds_with_where"],
         attrs="#[scale_info(bounds(T: TypeInfo + 'static, T::A: TypeInfo + 'static))]\n")
    each("S", "<T, U>", "where T: Tr, U: Clone", [("", "<T as Tr>::N"), ("", "U")], [("S<Impl, u8>", [("T", S), ("U", S)])], ["bounds_attr", "where_clause", "bounds_with_where"],
         attrs="#[scale_info(bounds(T: TypeInfo + 'static, U: TypeInfo + 'static, <T as Tr>::N: TypeInfo + 'static))]\n")
    # an associated type (or a type in another module) that happens to be named like the derived type
    add("pub trait Config { type Balance; }\n#[derive(TypeInfo)]\npub struct Cfg;\nimpl Config for Cfg { type Balance = u128; }\n#[derive(TypeInfo)]\npub struct Balance<T: Config> {\n    free: T::Balance,\n    reserved: Vec<T::Balance>,\n}",
        [("Balance<Cfg>", [("T", S)])], ["assoc", "assoc_named_like_type"])
    add("pub mod v1 {\n    use super::*;\n    #[derive(TypeInfo)]\n    pub struct Wrapper<T>(pub T);\n}\n#[derive(TypeInfo)]\npub struct Wrapper<T> {\n    old: v1::Wrapper<T>,\n    new: Option<v1::Wrapper<Vec<T>>>,\n}",
        [("Wrapper<u8>", [("T", S)])], ["namesake_in_other_module"])
    add("pub trait Config { type Item; }\npub struct CfgNoInfo;\nimpl Config for CfgNoInfo { type Item = u8; }\n#[derive(TypeInfo)]\n#[scale_info(skip_type_params(T))]\npub enum Item<T: Config> {\n    One(T::Item),\n    Many { all: Vec<T::Item> },\n}",
        [("Item<CfgNoInfo>", [("T", N)])], ["assoc", "assoc_named_like_type", "skip_type_params"])
    # two separate codec attributes on one variant, skip not first
    each("S", "<T>", "", [("", "T")], [("S<u8>", [("T", S)])], ["codec_skip", "codec_skip_variant", "two_codec_attributes"], only=["enum_named", "enum_tuple"],
         variants_extra="    #[codec(index = 9)]\n    #[codec(skip)]\n    Cached(NoInfoOf<T>),\n    #[codec(index = 10)]\n    #[doc = \"x\"]\n    #[codec(skip)]\n    CachedNamed { y: NoInfo },\n")
    # a crate path given through an alias that exists only inside one module, followed by a derive elsewhere without the attribute
    add("pub mod inner {\n    use scale_info as si;\n    use scale_info::TypeInfo;\n    #[derive(TypeInfo)]\n    #[scale_info(crate = si)]\n    pub struct First<T>(pub T);\n}\n#[derive(TypeInfo)]\npub struct S<T> {\n    a: inner::First<T>,\n    b: T,\n}",
        [("S<u8>", [("T", S)]), ("inner::First<u16>", [("T", S)])], ["crate_attr", "two_derives", "first_derive"])
    add("#[derive(TypeInfo)]\npub struct S<T> {\n    b: T,\n}\npub mod inner {\n    use scale_info as si;\n    use scale_info::TypeInfo;\n    #[derive(TypeInfo)]\n    #[scale_info(crate = si)]\n    pub enum Second<T> { A(T), B }\n}",
        [("S<u8>", [("T", S)]), ("inner::Second<u16>", [("T", S)])], ["crate_attr", "two_derives"])
    # inline bounds that mention a lifetime parameter
    each("S", "<'a, T: 'a>", "", [("", "&'a T"), ("", "u8")], [("S<'static, u8>", [("T", S)])], ["lifetime", "lifetime_in_inline_bound"])
    each("S", "<'a, 'b, T: 'a + Clone, U: 'b>", "", [("", "&'a T"), ("", "&'b [U]")], [("S<'static, 'static, u8, String>", [("T", S), ("U", S)])], ["lifetime", "lifetime_in_inline_bound"])
    # user types that happen to be named like items of scale-info itself
    add("#[derive(TypeInfo)]\npub struct Path<T> {\n    segments: Vec<T>,\n}\n#[derive(TypeInfo)]\npub enum Type<T> { A(T), B { x: Path<T> } }",
        [("Path<u8>", [("T", S)]), ("Type<String>", [("T", S)])], ["names_like_scale_info_items"])
    add("#[derive(TypeInfo)]\npub struct Fields<T>(pub T);\n#[derive(TypeInfo)]\npub struct Variants<T>(pub Vec<T>);\n#[derive(TypeInfo)]\npub struct TypeParameter;\n#[derive(TypeInfo)]\npub struct S<T> {\n    a: Fields<T>,\n    b: Variants<T>,\n    c: TypeParameter,\n    d: Option<Fields<u8>>,\n}",
        [("S<u8>", [("T", S)])], ["names_like_scale_info_items"])
    # 7. #[codec(skip)] members need no type info
    each("S", "<T>", "", [("#[codec(skip)]\n    ", "NoInfo"), ("", "T")], [("S<u8>", [("T", S)])], ["codec_skip"])
    each("S", "<T>", "", [("#[codec(skip)]\n    ", "NoInfoOf<T>"), ("", "T")], [("S<u8>", [("T", S)])], ["codec_skip", "codec_skip_generic"])
    each("S", "<T, U>", "", [("#[codec(skip)]\n    ", "Vec<NoInfoOf<U>>"), ("", "T"), ("", "PhantomData<U>")], [("S<u8, u16>", [("T", S), ("U", S)])], ["codec_skip", "codec_skip_generic"])
    each("S", "<T>", "", [("", "T")], [("S<u8>", [("T", S)])], ["codec_skip", "codec_skip_variant"], only=["enum_named", "enum_tuple"],
         variants_extra="    #[codec(skip)]\n    Skipped(NoInfoOf<T>),\n    #[codec(skip)]\n    SkippedNamed { x: NoInfo, y: NoInfoOf<Vec<T>> },\n")
    # 8. compact members
    each("S", "<T>", "", [("#[codec(compact)]\n    ", "T"), ("#[codec(compact)]\n    ", "u64")], [("S<u32>", [("T", S)]), ("S<u128>", [("T", S)])], ["compact"])
    each("S", "<T: Tr>", "where T::N: HasCompact", [("#[codec(compact)]\n    ", "T::N"), ("", "T::A")], [("S<Impl>", [("T", S)])], ["compact", "compact_assoc"])
    each("S", "<T: Tr>", "where <T as Tr>::N: HasCompact", [("#[codec(compact)]\n    ", "<T as Tr>::N")], [("S<Impl>", [("T", S)])], ["compact", "compact_assoc"])
    # the same generic type as a plain member and as a compact member, in both orders
    each("S", "<T>", "", [("", "T"), ("#[codec(compact)]\n    ", "T")], [("S<u32>", [("T", S)])], ["compact", "compact_and_plain"])
    each("S", "<T>", "", [("#[codec(compact)]\n    ", "T"), ("", "T"), ("", "Vec<T>")], [("S<u64>", [("T", S)])], ["compact", "compact_and_plain"])
    each("S", "<T, U>", "", [("", "U"), ("", "T"), ("#[codec(compact)]\n    ", "U"), ("#[codec(compact)]\n    ", "T")], [("S<u8, u16>", [("T", S), ("U", S)])], ["compact", "compact_and_plain"])
    # a skipped parameter that occurs only in skipped members (nothing else gives it a bound)
    each("S", "<T>", "", [("#[codec(skip)]\n    ", "NoInfoOf<T>"), ("", "u8")], [("S<NoInfo>", [("T", N)]), ("S<String>", [("T", N)])], ["codec_skip", "skip_type_params", "skipped_param_only_in_skipped_member"],
         attrs="#[scale_info(skip_type_params(T))]\n")
    each("S", "<T, U>", "", [("#[codec(skip)]\n    ", "Vec<T>"), ("", "U")], [("S<NoInfo, u8>", [("T", N), ("U", S)])], ["codec_skip", "skip_type_params", "skipped_param_only_in_skipped_member"],
         attrs="#[scale_info(skip_type_params(T))]\n")
    each("S", "<T>", "", [("", "u8")], [("S<NoInfo>", [("T", N)])], ["codec_skip", "skip_type_params", "skipped_param_only_in_skipped_member", "codec_skip_variant"], only=["enum_named", "enum_tuple"],
         attrs="#[scale_info(skip_type_params(T))]\n", variants_extra="    #[codec(skip)]\n    Skipped(T, NoInfoOf<T>),\n")
    # 9. encoded_as on a generic member whose parameter is declared HasCompact
    each("S", "<T: HasCompact>", "", [("#[codec(encoded_as = \"<T as HasCompact>::Type\")]\n    ", "T"), ("", "u8")], [("S<u32>", [("T", S)])], ["encoded_as_generic"])
    # 10. a parameter that is reached only through the type arguments of the *trait* in a qualified path
    each("S", "<T>", "", [("", "<u64 as Convert<T>>::Out"), ("", "u8")], [("S<u8>", [("T", S)]), ("S<String>", [("T", S)])], ["assoc", "qualified", "param_in_trait_arguments"])
    each("S", "<T: Tr>", "", [("", "<Native as Currency<T::A>>::Imbalance")], [("S<Impl>", [("T", S)])], ["assoc", "qualified", "param_in_trait_arguments"])
    each("S", "<T, U>", "", [("", "Vec<<u64 as Convert<(T, U)>>::Out>"), ("", "Option<<Native as Currency<U>>::Imbalance>")], [("S<u8, bool>", [("T", S), ("U", S)])], ["assoc", "qualified", "param_in_trait_arguments"])
    # 11. explicit bounds that imply TypeInfo without naming it: through a supertrait, through a renamed import, through a path
    each("S", "<T>", "", [("", "T")], [("S<u8>", [("T", S)]), ("S<String>", [("T", S)])], ["bounds_attr", "bounds_through_supertrait"], attrs="#[scale_info(bounds(T: Member))]\n")
    each("S", "<T: Chain>", "", [("", "T::Balance"), ("", "T")], [("S<Impl>", [("T", S)])], ["bounds_attr", "bounds_through_supertrait", "assoc"],
         attrs="#[scale_info(bounds(T: Chain, T::Balance: TypeInfo + 'static))]\n")
    add("use scale_info::TypeInfo as Metadata;\n#[derive(TypeInfo)]\n#[scale_info(bounds(T: Metadata + 'static))]\npub struct S<T> {\n    a: T,\n    b: Vec<T>,\n}", [("S<u8>", [("T", S)])], ["bounds_attr", "bounds_through_renamed_import"])
    each("S", "<T>", "", [("", "T")], [("S<u8>", [("T", S)])], ["bounds_attr", "bounds_through_path"], attrs="#[scale_info(bounds(T: ::scale_info::TypeInfo + 'static))]\n")
    each("S", "<T>", "", [("", "T")], [("S<u8>", [("T", S)])], ["bounds_attr", "bounds_through_static_type_info"], attrs="#[scale_info(bounds(T: scale_info::StaticTypeInfo))]\n")
    # 12. definitions without any type parameter (const parameters / lifetimes only) whose explicit bounds are really needed
    add("pub struct Buf<const N: usize>(pub [u8; N]);\nimpl<const N: usize> TypeInfo for Buf<N> where [u8; N]: Default {\n    type Identity = Self;\n    fn type_info() -> Type {\n        Type::builder().path(Path::new(\"Buf\", \"m\")).composite(Fields::unnamed().field(|f| f.ty::<[u8; N]>()))\n    }\n}\n"
        "#[derive(TypeInfo)]\n#[scale_info(bounds([u8; N]: Default))]\npub struct S<const N: usize> {\n    b: Buf<N>,\n    c: u8,\n}", [("S<3>", []), ("S<0>", [])], ["bounds_attr", "bounds_needed_without_type_params", "const_param"])
    add("pub trait Pick { type Out; }\npub struct Sel<const W: bool>;\nimpl Pick for Sel<true> { type Out = u64; }\nimpl Pick for Sel<false> { type Out = u8; }\n"
        "#[derive(TypeInfo)]\n#[scale_info(bounds(Sel<W>: Pick, <Sel<W> as Pick>::Out: TypeInfo + 'static))]\npub struct S<const W: bool> where Sel<W>: Pick {\n    v: <Sel<W> as Pick>::Out,\n}", [("S<true>", []), ("S<false>", [])],
        ["bounds_attr", "bounds_needed_without_type_params", "const_param", "assoc"])
    add("pub trait Named<'a> { type Out; }\nimpl<'a> Named<'a> for u8 { type Out = &'a str; }\n#[derive(TypeInfo)]\n#[scale_info(bounds('a: 'static, <u8 as Named<'a>>::Out: TypeInfo + 'static))]\npub struct S<'a> {\n    v: <u8 as Named<'a>>::Out,\n}",
        [("S<'static>", [])], ["bounds_attr", "bounds_needed_without_type_params", "lifetime"])
    # 13. expansion sites where the prelude is absent or its names are taken
    add("pub mod bare {\n    #![no_implicit_prelude]\n    #[derive(::scale_info::TypeInfo)]\n    pub struct S<T, U> {\n        pub a: T,\n        pub b: ::core::option::Option<U>,\n    }\n}\npub use bare::S;",
        [("S<u8, u16>", [("T", S), ("U", S)])], ["no_implicit_prelude", "generic"])
    add("pub mod shadow {\n    use scale_info::TypeInfo;\n    pub enum Tri<T> { Some(T), None, Ok, Err }\n    pub use self::Tri::*;\n    pub struct Vec;\n    pub struct Option;\n    pub struct Box;\n    pub struct String;\n"
        "    #[derive(TypeInfo)]\n    pub struct S<T, U> {\n        pub a: T,\n        pub b: ::std::vec::Vec<U>,\n    }\n    #[derive(TypeInfo)]\n    pub enum E<T> { A(T), B { x: T } }\n}\npub use shadow::{S, E};",
        [("S<u8, u16>", [("T", S), ("U", S)]), ("E<bool>", [("T", S)])], ["prelude_names_shadowed", "generic"])
    # seeded decorations: combine a random subset of member kinds into bigger definitions
    pool = [("", "T"), ("", "Vec<T>"), ("", "Option<U>"), ("", "Box<(T, U)>"), ("", "[U; 2]"), ("", "PhantomData<V>"), ("", "BTreeMap<u8, T>"), ("#[codec(compact)]\n    ", "u32"),
            ("", "Option<Box<S<T, U, V>>>"), ("#[codec(skip)]\n    ", "NoInfo"), ("", "u64"), ("", "&'static str"), ("", "PhantomData<(T, V)>")]
    for _ in range(n_seeded):
        ms = r.sample(pool, r.randint(2, 6))
        nonrec = [t for _, t in ms if "S<" not in t]
        uses = lambda p, t: re.search(r"\b%s\b" % p, t) is not None
        if not any(uses("T", t) for t in nonrec if "PhantomData" not in t):
            ms.append(("", "T"))
        if not any(uses("U", t) for t in nonrec):
            ms.append(("", "U"))
        # V only ever inside PhantomData => may be skipped
        if not any(uses("V", t) for t in nonrec):
            ms.append(("", "PhantomData<V>"))
        skip_v = all((not uses("V", t)) or t.startswith("PhantomData") or "S<" in t for _, t in ms) and r.random() < 0.6
        # PhantomData<(T, V)> mentions T as well: T stays bound, V skipped is fine
        attrs = "#[scale_info(skip_type_params(V))]\n" if skip_v else ""
        vt = "NoInfo" if skip_v else "bool"
        body, shape = r.choice(shapes("S", "<T, U, V>", "", ms, attrs))
        add(body, [("S<u8, String, %s>" % vt, [("T", S), ("U", S), ("V", not skip_v)])], ["seeded", shape])
    return out


# ------------------------------------------------------------------------------------------------ negatives

class Neg:
    def __init__(self, name, group, bad, good, tags):
        self.name, self.group, self.bad, self.good, self.tags = name, group, bad, good, tags

    def source(self, which):
        body = self.bad if which == "neg" else self.good
        return HEADER + HELPERS + "\n// BEGIN-NEG\n" + body + "\n// END-NEG\n\nfn main() { run(); }\n"


def negatives(seed):
    r = random.Random(seed * 17 + 3)
    out = []
    k = [0]

    def add(group, bad, good, tags):
        k[0] += 1
        out.append(Neg("n%03d" % k[0], group, bad, good, tags))

    def fn(expr):
        return "fn run() {\n    let t = %s;\n    println!(\"{:?}\", t);\n}" % expr

    # ---- builders, compile-time form
    path = 'Path::new("A", "m")'
    type_starts_ok = ["Type::builder().path(%s)" % path, "TypeBuilder::<MetaForm>::default().path(%s)" % path,
                      "<TypeBuilder<MetaForm, scale_info::build::state::PathNotAssigned> as Default>::default().path(%s)" % path]
    type_starts_nopath = ["Type::builder()", "TypeBuilder::<MetaForm>::default()", "TypeBuilder::<MetaForm, scale_info::build::state::PathAssigned>::default()",
                          "<TypeBuilder<MetaForm, scale_info::build::state::PathAssigned> as Default>::default()", "Type::builder().type_params(vec![])", "Type::builder().docs_always(&[\"d\"])"]
    finishers = ["composite(Fields::unit())", "composite(Fields::named().field(|f| f.ty::<u8>().name(\"a\")))", "composite(Fields::unnamed().field(|f| f.ty::<u8>()))",
                 "variant(Variants::new().variant(\"V\", |v| v.index(0)))", "variant(Variants::new())"]
    for s_bad in type_starts_nopath:
        for fin in finishers:
            add("builder/no-path", fn("%s.%s" % (s_bad, fin)), fn("%s.%s" % (r.choice(type_starts_ok), fin)), ["meta", "type-without-path"])
    # portable form
    ppath = 'Path::from_segments_unchecked(vec!["A".to_string()])'
    pfin = ["composite(Fields::<PortableForm>::unit())", "composite(Fields::<PortableForm>::named().field_portable(|f| f.name(\"a\".to_string()).ty(1u32)))",
            "variant(Variants::<PortableForm>::new().variant(\"V\".to_string(), |v| v.index(0)))"]
    for s_bad in ["Type::builder_portable()", "TypeBuilder::<PortableForm>::default()", "TypeBuilder::<PortableForm, scale_info::build::state::PathAssigned>::default()", "Type::builder_portable().type_params(vec![])"]:
        for fin in pfin:
            add("builder/no-path", fn("%s.%s" % (s_bad, fin)), fn("Type::builder_portable().path(%s).%s" % (ppath, fin)), ["portable", "type-without-path"])
    # ---- variant without index
    for form, new, name in [("meta", "Variants::<MetaForm>::new()", '"V"'), ("portable", "Variants::<PortableForm>::new()", '"V".to_string()')]:
        for bad, good in [("|v| v", "|v| v.index(1)"), ("|v| v.discriminant(3)", "|v| v.discriminant(3).index(1)"),
                          ("|v| v.fields(Fields::unit())", "|v| v.index(0).fields(Fields::unit())"),
                          ("|v| v.docs_always(&[\"d\"])" if form == "meta" else "|v| v.fields(Fields::<PortableForm>::unit())", "|v| v.index(2)")]:
            add("builder/variant-without-index", fn("%s.variant(%s, %s).finalize()" % (new, name, bad)), fn("%s.variant(%s, %s).finalize()" % (new, name, good)), [form, "variant-without-index"])
        # finalize a VariantBuilder directly
        add("builder/variant-without-index", fn("VariantBuilder::<%s>::new(%s).finalize()" % ("MetaForm" if form == "meta" else "PortableForm", name)),
            fn("VariantBuilder::<%s>::new(%s).index(0).finalize()" % ("MetaForm" if form == "meta" else "PortableForm", name)), [form, "variant-without-index", "direct"])
    # ---- field without type
    fb_states = [("FieldBuilder::<MetaForm>::new()", "FieldBuilder::<MetaForm>::new().ty::<u8>()"), ("Field::<MetaForm>::builder()", "Field::<MetaForm>::builder().ty::<u8>()"),
                 ("FieldBuilder::<MetaForm>::new().name(\"a\")", "FieldBuilder::<MetaForm>::new().name(\"a\").ty::<u8>()"),
                 ("FieldBuilder::<MetaForm>::new().type_name(\"T\")", "FieldBuilder::<MetaForm>::new().type_name(\"T\").compact::<u32>()"),
                 ("FieldBuilder::<MetaForm, scale_info::build::field_state::NameNotAssigned, scale_info::build::field_state::TypeAssigned>::default()", "FieldBuilder::<MetaForm>::default().ty::<u8>()"),
                 ("FieldBuilder::<MetaForm, scale_info::build::field_state::NameAssigned, scale_info::build::field_state::TypeAssigned>::default()", "FieldBuilder::<MetaForm>::default().ty::<u8>().name(\"a\")"),
                 ("FieldBuilder::<PortableForm>::new()", "FieldBuilder::<PortableForm>::new().ty(1u32)"), ("Field::<PortableForm>::builder().name(\"a\".to_string())", "Field::<PortableForm>::builder().name(\"a\".to_string()).ty(1u32)"),
                 ("FieldBuilder::<PortableForm, scale_info::build::field_state::NameNotAssigned, scale_info::build::field_state::TypeAssigned>::default()", "FieldBuilder::<PortableForm>::default().ty(7u32)")]
    for bad, good in fb_states:
        add("builder/field-without-type", fn("%s.finalize()" % bad), fn("%s.finalize()" % good), ["field-without-type", "portable" if "Portable" in bad else "meta"])
    for bad, good in [("Fields::named().field(|f| f.name(\"a\"))", "Fields::named().field(|f| f.name(\"a\").ty::<u8>())"), ("Fields::unnamed().field(|f| f)", "Fields::unnamed().field(|f| f.ty::<u8>())"),
                      ("Fields::unnamed().field(|f| f.type_name(\"u8\"))", "Fields::unnamed().field(|f| f.type_name(\"u8\").ty::<u8>())"),
                      ("Fields::<PortableForm>::named().field_portable(|f| f.name(\"a\".to_string()))", "Fields::<PortableForm>::named().field_portable(|f| f.name(\"a\".to_string()).ty(1u32))"),
                      ("Fields::<PortableForm>::unnamed().field_portable(|f| f)", "Fields::<PortableForm>::unnamed().field_portable(|f| f.ty(1u32))")]:
        add("builder/field-without-type", fn("%s.finalize()" % bad), fn("%s.finalize()" % good), ["field-without-type", "in-fields-builder"])
    # every setter that does not supply the missing part, alone and combined, must leave the builder unfinished
    deco_field = [".type_name(\"T\")", ".docs(&[\"d\"])", ".docs_always(&[\"d\"])", ".docs_always(&[\"d\"]).type_name(\"T\")", ".name(\"a\").docs_always(&[\"d\"])", ".name(\"a\").docs(&[\"d\"]).type_name(\"T\")"]
    for dco in deco_field:
        named = ".name(" in dco
        fb = "Fields::named()" if named else "Fields::unnamed()"
        add("builder/field-without-type", fn("%s.field(|f| f%s).finalize()" % (fb, dco)), fn("%s.field(|f| f%s.ty::<u8>()).finalize()" % (fb, dco)), ["meta", "field-without-type", "decorated"])
        add("builder/field-without-type", fn("FieldBuilder::<MetaForm>::new()%s.finalize()" % dco), fn("FieldBuilder::<MetaForm>::new()%s.ty::<u8>().finalize()" % dco), ["meta", "field-without-type", "decorated", "direct"])
    for dco in [".type_name(\"T\".to_string())", ".name(\"a\".to_string()).type_name(\"T\".to_string())"]:
        named = ".name(" in dco
        fb = "Fields::<PortableForm>::named()" if named else "Fields::<PortableForm>::unnamed()"
        add("builder/field-without-type", fn("%s.field_portable(|f| f%s).finalize()" % (fb, dco)), fn("%s.field_portable(|f| f%s.ty(1u32)).finalize()" % (fb, dco)), ["portable", "field-without-type", "decorated"])
    for dco in [".docs(&[\"d\"])", ".docs_always(&[\"d\"])", ".discriminant(1).docs_always(&[\"d\"])", ".fields(Fields::unnamed().field(|f| f.ty::<u8>())).docs_always(&[\"d\"])"]:
        add("builder/variant-without-index", fn("Variants::<MetaForm>::new().variant(\"V\", |v| v%s).finalize()" % dco), fn("Variants::<MetaForm>::new().variant(\"V\", |v| v%s.index(3)).finalize()" % dco), ["meta", "variant-without-index", "decorated"])
    for dco in [".docs(&[\"d\"])", ".docs_always(&[\"d\"]).type_params(vec![])", ".type_params(vec![]).docs(&[\"d\"])"]:
        add("builder/no-path", fn("Type::builder()%s.composite(Fields::unit())" % dco), fn("Type::builder()%s.path(%s).composite(Fields::unit())" % (dco, path)), ["meta", "type-without-path", "decorated"])
    # decorated named / unnamed mix-ups
    add("builder/unnamed-among-named", fn("Fields::named().field(|f| f.ty::<u8>().docs_always(&[\"d\"]).type_name(\"u8\")).finalize()"), fn("Fields::named().field(|f| f.ty::<u8>().docs_always(&[\"d\"]).type_name(\"u8\").name(\"a\")).finalize()"), ["meta", "unnamed-among-named", "decorated"])
    add("builder/named-among-unnamed", fn("Fields::unnamed().field(|f| f.docs_always(&[\"d\"]).name(\"a\").ty::<u8>()).finalize()"), fn("Fields::unnamed().field(|f| f.docs_always(&[\"d\"]).ty::<u8>()).finalize()"), ["meta", "named-among-unnamed", "decorated"])
    # ---- named among unnamed / unnamed among named
    NA, NN, TA, TN = ["scale_info::build::field_state::" + x for x in ("NameAssigned", "NameNotAssigned", "TypeAssigned", "TypeNotAssigned")]
    add("builder/named-among-unnamed", fn("Fields::unnamed().field(|f| f.ty::<u8>().name(\"a\")).finalize()"), fn("Fields::unnamed().field(|f| f.ty::<u8>()).finalize()"), ["meta", "named-among-unnamed"])
    add("builder/named-among-unnamed", fn("Fields::unnamed().field(|f| f.name(\"a\").compact::<u32>()).finalize()"), fn("Fields::unnamed().field(|f| f.compact::<u32>()).finalize()"), ["meta", "named-among-unnamed"])
    add("builder/named-among-unnamed", fn("Fields::unnamed().field(|f| f.ty::<u8>()).field(|f| f.ty::<u16>().name(\"b\")).finalize()"), fn("Fields::unnamed().field(|f| f.ty::<u8>()).field(|f| f.ty::<u16>()).finalize()"), ["meta", "named-among-unnamed"])
    add("builder/named-among-unnamed", fn("Fields::unnamed().field(|_| FieldBuilder::<MetaForm, %s, %s>::default().ty::<u8>()).finalize()" % (NA, TN)), fn("Fields::unnamed().field(|_| FieldBuilder::<MetaForm>::default().ty::<u8>()).finalize()"), ["meta", "named-among-unnamed", "via-default"])
    add("builder/named-among-unnamed", fn("Fields::<PortableForm>::unnamed().field_portable(|f| f.ty(1u32).name(\"a\".to_string())).finalize()"), fn("Fields::<PortableForm>::unnamed().field_portable(|f| f.ty(1u32)).finalize()"), ["portable", "named-among-unnamed"])
    add("builder/unnamed-among-named", fn("Fields::named().field(|f| f.ty::<u8>()).finalize()"), fn("Fields::named().field(|f| f.ty::<u8>().name(\"a\")).finalize()"), ["meta", "unnamed-among-named"])
    add("builder/unnamed-among-named", fn("Fields::named().field(|f| f.name(\"a\").ty::<u8>()).field(|f| f.compact::<u64>().type_name(\"u64\")).finalize()"),
        fn("Fields::named().field(|f| f.name(\"a\").ty::<u8>()).field(|f| f.compact::<u64>().type_name(\"u64\").name(\"b\")).finalize()"), ["meta", "unnamed-among-named"])
    add("builder/unnamed-among-named", fn("Fields::named().field(|_| FieldBuilder::<MetaForm, %s, %s>::default().ty::<u16>()).finalize()" % (NA, TN)),
        fn("Fields::named().field(|_| FieldBuilder::<MetaForm>::default().name(\"a\").ty::<u16>()).finalize()"), ["meta", "unnamed-among-named", "via-default"])
    add("builder/unnamed-among-named", fn("Fields::named().field(|_| FieldBuilder::<MetaForm, %s, %s>::default()).finalize()" % (NA, TA)),
        fn("Fields::named().field(|_| FieldBuilder::<MetaForm>::default().name(\"a\").ty::<u16>()).finalize()"), ["meta", "unnamed-among-named", "field-without-type", "via-default"])
    add("builder/unnamed-among-named", fn("Fields::<PortableForm>::named().field_portable(|f| f.ty(1u32)).finalize()"), fn("Fields::<PortableForm>::named().field_portable(|f| f.ty(1u32).name(\"a\".to_string())).finalize()"), ["portable", "unnamed-among-named"])
    add("builder/unnamed-among-named", fn("Fields::<PortableForm>::named().field_portable(|_| FieldBuilder::<PortableForm, %s, %s>::default().ty(3u32)).finalize()" % (NA, TN)),
        fn("Fields::<PortableForm>::named().field_portable(|f| f.name(\"a\".to_string()).ty(3u32)).finalize()"), ["portable", "unnamed-among-named", "via-default"])
    # a variant built through Default in the wrong state cannot exist: VariantBuilder has no Default; make sure none appears
    add("builder/variant-without-index", fn("Variants::<MetaForm>::new().variant(\"V\", |_| <VariantBuilder<MetaForm, scale_info::build::variant_state::IndexAssigned> as Default>::default()).finalize()"),
        fn("Variants::<MetaForm>::new().variant(\"V\", |v| v.index(0)).finalize()"), ["meta", "variant-without-index", "via-default"])

    # ---- derive, container level
    def dv(attrs, item="pub struct S<T> { a: T }", generic=True):
        return "#[derive(TypeInfo)]\n%s%s\nfn run() { println!(\"{:?}\", <S%s as TypeInfo>::type_info()); }" % (attrs, item, "<u8>" if generic else "")
    add("derive/union", "#[derive(TypeInfo)]\npub union S { a: u8, b: u16 }\nfn run() {}", dv("", "pub struct S { a: u8, b: u16 }", False), ["union"])
    add("derive/union", "#[derive(TypeInfo)]\n#[repr(C)]\npub union S<T: Copy> { a: T, b: u16 }\nfn run() {}", dv("", "pub struct S<T: Copy> { a: T, b: u16 }"), ["union", "generic"])
    for bad in ["#[scale_info(foo)]\n", "#[scale_info(foo = \"x\")]\n", "#[scale_info(rename = \"x\")]\n", "#[scale_info(skip)]\n", "#[scale_info(capture_docs = \"always\", bar)]\n",
                "#[scale_info(docs)]\n", "#[scale_info(Bounds())]\n", "#[scale_info(skip_type_param(T))]\n"]:
        add("derive/unknown-attribute", dv(bad), dv(""), ["unknown-attribute"])
    dups = [("bounds", "bounds(T: TypeInfo + 'static)"), ("skip_type_params", "skip_type_params(T)"), ("capture_docs", "capture_docs = \"always\""), ("crate", "crate = ::scale_info")]
    for key, a in dups:
        item = "pub struct S<T> { a: PhantomData<T> }"
        add("derive/duplicate-attribute", dv("#[scale_info(%s, %s)]\n" % (a, a), item), dv("#[scale_info(%s)]\n" % a, item), ["duplicate", key, "one-attribute"])
        add("derive/duplicate-attribute", dv("#[scale_info(%s)]\n#[scale_info(%s)]\n" % (a, a), item), dv("#[scale_info(%s)]\n" % a, item), ["duplicate", key, "two-attributes"])
        other = r.choice([x for x in dups if x[0] != key])[1]
        add("derive/duplicate-attribute", dv("#[scale_info(%s, %s)]\n#[scale_info(%s)]\n" % (a, other, a), item), dv("#[scale_info(%s, %s)]\n" % (a, other), item), ["duplicate", key, "mixed"])
    # every ordered pair of capture_docs values, in one attribute and across two
    for v1 in ["default", "always", "never", "Default", "ALWAYS"]:
        for v2 in ["default", "always", "never"]:
            item = "pub struct S<T> { a: PhantomData<T> }"
            add("derive/duplicate-attribute", dv("#[scale_info(capture_docs = \"%s\", capture_docs = \"%s\")]\n" % (v1, v2), item), dv("#[scale_info(capture_docs = \"%s\")]\n" % v2, item), ["duplicate", "capture_docs", "value-pairs"])
            add("derive/duplicate-attribute", dv("#[scale_info(capture_docs = \"%s\")]\n#[scale_info(capture_docs = \"%s\")]\n" % (v1, v2), item), dv("#[scale_info(capture_docs = \"%s\")]\n" % v1, item), ["duplicate", "capture_docs", "value-pairs"])
    # duplicates whose two occurrences differ, or whose first occurrence is "empty"
    for a1, a2 in [("bounds()", "bounds(T: TypeInfo + 'static)"), ("bounds(T: TypeInfo + 'static)", "bounds()"), ("skip_type_params()", "skip_type_params(T)"), ("skip_type_params(T)", "skip_type_params()"),
                   ("crate = ::scale_info", "crate = scale_info"), ("bounds()", "bounds()"), ("skip_type_params()", "skip_type_params()")]:
        item = "pub struct S<T> { a: PhantomData<T> }"
        good = a2 if "()" not in a2 or "skip" in a2 else a1
        twin_attr = "bounds(T: TypeInfo + 'static)" if a1.startswith("bounds") else ("skip_type_params(T)" if a1.startswith("skip") else "crate = ::scale_info")
        add("derive/duplicate-attribute", dv("#[scale_info(%s, %s)]\n" % (a1, a2), item), dv("#[scale_info(%s)]\n" % twin_attr, item), ["duplicate", "differing-occurrences", "one-attribute"])
        add("derive/duplicate-attribute", dv("#[scale_info(%s)]\n#[scale_info(%s)]\n" % (a1, a2), item), dv("#[scale_info(%s)]\n" % twin_attr, item), ["duplicate", "differing-occurrences", "two-attributes"])
    for val in ["sometimes", "", "yes", "alway", "never ", "default,always"]:
        add("derive/invalid-capture-docs", dv("#[scale_info(capture_docs = \"%s\")]\n" % val), dv("#[scale_info(capture_docs = \"never\")]\n"), ["invalid-capture-docs"])
    # values that are not one of the three words but whose Unicode upper- / lower-case mapping is (long s, Kelvin sign, dotted capital I, ligatures, full-width letters)
    for val in ["alway\u017f", "ALWAY\u017f", "Alway\u017f", "ne\u1e7fer", "\u212aever", "defau\u217ct", "\uff41lways", "neve\u0280", "a\u0307lways", "default\u200b", "\u00c0lways", "de\ufb00ault", "never\u0000"]:
        add("derive/invalid-capture-docs", dv("#[scale_info(capture_docs = %s)]\n" % json.dumps(val, ensure_ascii=False).replace("\\u0000", "\\0")), dv("#[scale_info(capture_docs = \"never\")]\n"), ["invalid-capture-docs", "non-ascii-value"])
    add("derive/invalid-capture-docs", dv("#[scale_info(capture_docs = always)]\n"), dv("#[scale_info(capture_docs = \"always\")]\n"), ["invalid-capture-docs", "not-a-string"])
    add("derive/invalid-capture-docs", dv("#[scale_info(capture_docs)]\n"), dv("#[scale_info(capture_docs = \"default\")]\n"), ["invalid-capture-docs", "no-value"])
    # bounds leaving a non-skipped parameter unbound
    add("derive/bounds-missing-param", dv("#[scale_info(bounds())]\n"), dv("#[scale_info(bounds(T: TypeInfo + 'static))]\n"), ["bounds-missing-param", "empty"])
    add("derive/bounds-missing-param", dv("#[scale_info(bounds(T::A: TypeInfo + 'static))]\n", "pub struct S<T: Tr> { a: T::A }").replace("S<u8>", "S<Impl>"),
        dv("#[scale_info(bounds(T::A: TypeInfo + 'static, T: TypeInfo + 'static))]\n", "pub struct S<T: Tr> { a: T::A }").replace("S<u8>", "S<Impl>"), ["bounds-missing-param", "only-assoc"])
    add("derive/bounds-missing-param", dv("#[scale_info(bounds(U: TypeInfo + 'static))]\n", "pub struct S<T, U> { a: T, b: U }").replace("S<u8>", "S<u8, u8>"),
        dv("#[scale_info(bounds(U: TypeInfo + 'static, T: TypeInfo + 'static))]\n", "pub struct S<T, U> { a: T, b: U }").replace("S<u8>", "S<u8, u8>"), ["bounds-missing-param", "other-param"])
    add("derive/bounds-missing-param", dv("#[scale_info(bounds(T: TypeInfo + 'static), skip_type_params(U))]\n", "pub struct S<T, U, V> { a: T, b: PhantomData<U>, c: V }").replace("S<u8>", "S<u8, u8, u8>"),
        dv("#[scale_info(bounds(T: TypeInfo + 'static, V: TypeInfo + 'static), skip_type_params(U))]\n", "pub struct S<T, U, V> { a: T, b: PhantomData<U>, c: V }").replace("S<u8>", "S<u8, u8, u8>"), ["bounds-missing-param", "with-skip"])
    # the parameters carry their own TypeInfo bounds in the declaration, so only the derive's own check can reject these
    B = "TypeInfo + 'static"
    add("derive/bounds-missing-param", dv("#[scale_info(bounds())]\n", "pub struct S<T: %s> { a: T }" % B), dv("#[scale_info(bounds(T: TypeInfo + 'static))]\n", "pub struct S<T: %s> { a: T }" % B), ["bounds-missing-param", "inline-bound", "empty"])
    add("derive/bounds-missing-param", dv("#[scale_info(bounds(), skip_type_params(T))]\n", "pub struct S<T, U: %s> { a: PhantomData<T>, b: U }" % B).replace("S<u8>", "S<NoInfo, u8>"),
        dv("#[scale_info(bounds(U: TypeInfo + 'static), skip_type_params(T))]\n", "pub struct S<T, U: %s> { a: PhantomData<T>, b: U }" % B).replace("S<u8>", "S<NoInfo, u8>"), ["bounds-missing-param", "inline-bound", "skipped-first"])
    add("derive/bounds-missing-param", dv("#[scale_info(bounds(T: TypeInfo + 'static), skip_type_params(U))]\n", "pub struct S<T, U, V: %s> { a: T, b: PhantomData<U>, c: V }" % B).replace("S<u8>", "S<u8, NoInfo, u8>"),
        dv("#[scale_info(bounds(T: TypeInfo + 'static, V: TypeInfo + 'static), skip_type_params(U))]\n", "pub struct S<T, U, V: %s> { a: T, b: PhantomData<U>, c: V }" % B).replace("S<u8>", "S<u8, NoInfo, u8>"), ["bounds-missing-param", "inline-bound", "skipped-middle"])
    add("derive/bounds-missing-param", dv("#[scale_info(bounds(T::A: TypeInfo + 'static))]\n", "pub struct S<T: Tr + %s> { a: T::A }" % B).replace("S<u8>", "S<Impl>"),
        dv("#[scale_info(bounds(T::A: TypeInfo + 'static, T: TypeInfo + 'static))]\n", "pub struct S<T: Tr + %s> { a: T::A }" % B).replace("S<u8>", "S<Impl>"), ["bounds-missing-param", "inline-bound", "only-assoc"])
    add("derive/bounds-missing-param", dv("#[scale_info(bounds(<T as Tr>::A: TypeInfo + 'static))]\n", "pub struct S<T: Tr + %s> { a: T::A }" % B).replace("S<u8>", "S<Impl>"),
        dv("#[scale_info(bounds(<T as Tr>::A: TypeInfo + 'static, T: TypeInfo + 'static))]\n", "pub struct S<T: Tr + %s> { a: T::A }" % B).replace("S<u8>", "S<Impl>"), ["bounds-missing-param", "inline-bound", "only-qualified-assoc"])
    add("derive/bounds-missing-param", dv("#[scale_info(bounds(U: TypeInfo + 'static))]\n", "pub struct S<T: %s, U> { a: T, b: U }" % B).replace("S<u8>", "S<u8, u8>"),
        dv("#[scale_info(bounds(U: TypeInfo + 'static, T: TypeInfo + 'static))]\n", "pub struct S<T: %s, U> { a: T, b: U }" % B).replace("S<u8>", "S<u8, u8>"), ["bounds-missing-param", "inline-bound", "other-param"])
    add("derive/bounds-missing-param", dv("#[scale_info(bounds(Option<T>: TypeInfo + 'static))]\n", "pub struct S<T: %s> { a: Option<T> }" % B), dv("#[scale_info(bounds(Option<T>: TypeInfo + 'static, T: TypeInfo + 'static))]\n", "pub struct S<T: %s> { a: Option<T> }" % B), ["bounds-missing-param", "inline-bound", "only-container"])
    add("derive/bounds-missing-param", dv("#[scale_info(bounds(Vec<T>: TypeInfo + 'static))]\n"), dv("#[scale_info(bounds(Vec<T>: TypeInfo + 'static, T: TypeInfo + 'static))]\n"), ["bounds-missing-param", "only-container"])
    # the parameter's TypeInfo bound sits in the item's own where clause: that is not the attribute naming it
    add("derive/bounds-missing-param", dv("#[scale_info(bounds())]\n", "pub struct S<T> where T: %s { a: T }" % B), dv("#[scale_info(bounds(T: TypeInfo + 'static))]\n", "pub struct S<T> where T: %s { a: T }" % B),
        ["bounds-missing-param", "where-clause-bound", "empty"])
    add("derive/bounds-missing-param", dv("#[scale_info(bounds(U: TypeInfo + 'static))]\n", "pub struct S<T, U> where T: %s, U: Clone { a: T, b: U }" % B).replace("S<u8>", "S<u8, u8>"),
        dv("#[scale_info(bounds(U: TypeInfo + 'static, T: TypeInfo + 'static))]\n", "pub struct S<T, U> where T: %s, U: Clone { a: T, b: U }" % B).replace("S<u8>", "S<u8, u8>"), ["bounds-missing-param", "where-clause-bound", "other-param"])
    add("derive/bounds-missing-param", dv("#[scale_info(bounds(T::A: TypeInfo + 'static))]\n", "pub struct S<T: Tr> where T: %s { a: T::A }" % B).replace("S<u8>", "S<Impl>"),
        dv("#[scale_info(bounds(T::A: TypeInfo + 'static, T: TypeInfo + 'static))]\n", "pub struct S<T: Tr> where T: %s { a: T::A }" % B).replace("S<u8>", "S<Impl>"), ["bounds-missing-param", "where-clause-bound", "only-assoc"])
    # skip lists that are as long as the parameter list without covering it (repeated names, const parameters, stale names)
    add("derive/bounds-missing-param", dv("#[scale_info(bounds(), skip_type_params(T, T))]\n", "pub struct S<T, U: %s> { a: PhantomData<T>, b: U }" % B).replace("S<u8>", "S<NoInfo, u8>"),
        dv("#[scale_info(bounds(U: TypeInfo + 'static), skip_type_params(T))]\n", "pub struct S<T, U: %s> { a: PhantomData<T>, b: U }" % B).replace("S<u8>", "S<NoInfo, u8>"), ["bounds-missing-param", "skip-list-as-long-as-parameters", "repeated"])
    add("derive/bounds-missing-param", dv("#[scale_info(bounds(), skip_type_params(T, T, T))]\n", "pub struct S<T, U: %s, V: %s> { a: PhantomData<T>, b: U, c: V }" % (B, B)).replace("S<u8>", "S<NoInfo, u8, u8>"),
        dv("#[scale_info(bounds(U: TypeInfo + 'static, V: TypeInfo + 'static), skip_type_params(T))]\n", "pub struct S<T, U: %s, V: %s> { a: PhantomData<T>, b: U, c: V }" % (B, B)).replace("S<u8>", "S<NoInfo, u8, u8>"),
        ["bounds-missing-param", "skip-list-as-long-as-parameters", "repeated"])
    add("derive/bounds-missing-param", dv("#[scale_info(bounds(U: TypeInfo + 'static), skip_type_params(T, T))]\n", "pub struct S<T, U, V: %s> { a: PhantomData<T>, b: U, c: V }" % B).replace("S<u8>", "S<NoInfo, u8, u8>"),
        dv("#[scale_info(bounds(U: TypeInfo + 'static, V: TypeInfo + 'static), skip_type_params(T))]\n", "pub struct S<T, U, V: %s> { a: PhantomData<T>, b: U, c: V }" % B).replace("S<u8>", "S<NoInfo, u8, u8>"),
        ["bounds-missing-param", "skip-list-as-long-as-parameters", "repeated"])
    # generic parameter lists in every legal order: const parameters before type parameters, lifetimes first, defaults
    for gens, inst, unbound in [("const N: usize, T: %s" % B, "S<3, u8>", "T"), ("'a, const N: usize, T: %s" % B, "S<'static, 3, u8>", "T"), ("T: %s, const N: usize, U: %s" % (B, B), "S<u8, 3, u8>", "U"),
                                ("const N: usize, const M: usize, T: %s" % B, "S<1, 2, u8>", "T"), ("const N: usize, T: %s, U: %s" % (B, B), "S<3, u8, u8>", "U"), ("const N: usize, T: %s = u8" % B, "S<3>", "T")]:
        names = [g.strip().split(":")[0].replace("const ", "").strip() for g in gens.split(", ")]
        members = []
        for nm in names:
            if nm.startswith("'"):
                members.append("r%d: &%s u8" % (len(members), nm))
            elif nm in ("N", "M"):
                members.append("k%d: [u8; %s]" % (len(members), nm))
            else:
                members.append("m%d: %s" % (len(members), nm))
        item = "pub struct S<%s> { %s }" % (gens, ", ".join(members))
        tys = [nm for nm in names if not nm.startswith("'") and nm not in ("N", "M")]
        lts = [nm for nm in names if nm.startswith("'")]
        full = ", ".join(["%s: 'static" % l for l in lts] + ["%s: TypeInfo + 'static" % t for t in tys])
        part = ", ".join(["%s: 'static" % l for l in lts] + ["%s: TypeInfo + 'static" % t for t in tys if t != unbound])
        add("derive/bounds-missing-param", dv("#[scale_info(bounds(%s))]\n" % part, item).replace("S<u8>", inst), dv("#[scale_info(bounds(%s))]\n" % full, item).replace("S<u8>", inst),
            ["bounds-missing-param", "inline-bound", "const-before-type"])
    return out


def main():
    seed = int(sys.argv[1])
    tier = sys.argv[2]
    outdir = sys.argv[3]
    pos = positives(seed, 200 if tier == "thorough" else 12)
    neg = negatives(seed)
    os.makedirs(outdir + "/pos", exist_ok=True)
    os.makedirs(outdir + "/neg", exist_ok=True)
    plog = []
    for p in pos:
        with open("%s/pos/%s.rs" % (outdir, p.name), "w") as fh:
            fh.write(p.source())
        plog.append({"name": p.name, "tags": p.tags, "insts": [{"inst": i, "params": [[n, s] for n, s in pat]} for i, pat in p.insts]})
    nlog = []
    for n in neg:
        for which in ("neg", "twin"):
            with open("%s/neg/%s_%s.rs" % (outdir, n.name, which), "w") as fh:
                fh.write(n.source(which))
        nlog.append({"name": n.name, "group": n.group, "tags": n.tags})
    json.dump(plog, open(outdir + "/pos.json", "w"), indent=0)
    json.dump(nlog, open(outdir + "/neg.json", "w"), indent=0)


if __name__ == "__main__":
    main()
