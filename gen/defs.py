# Stage B of the corpus generator: struct / enum definitions with attributes, their
# instantiations, Sample / Model impls (C03) and declaration models (C09).
import random
import re
from corpus import T, P, U8, U16, U32, U64, U128, BOOL, STRING, STR, UNIT, PRIMS_U, PRIMS_I, rust_str

MOD_PREFIX = ["rtc", "gen", "g"]

DOC_POOL = [
    " plain doc", "no leading space", "  two leading spaces", "", " ", " with \"quotes\" and \\backslash\\", " braces { } [ ] ( ) < >",
    " unicode é 日本語 😀", " trailing space ", " # heading", " `code` and *stars*", " tab\there", " // not a comment", " 'single' quotes",
]


class TT(T):
    """template type: a type expression that may mention parameters of the enclosing definition"""

    def rust(self):
        k = self.kind
        if k == "param":
            return self.extra
        if k == "selfdef":
            return self.extra  # e.g. Foo<T>
        if k == "paren":
            return "(%s)" % self.args[0].rust()
        if k == "lt_cow":
            return "Cow<%s, str>" % self.extra
        if k == "lt_str":
            return "&%s str" % self.extra
        if k == "lt_ref":
            return "&%s %s" % (self.extra, self.args[0].rust())
        if k == "constarray":
            return "[%s; %s]" % (self.args[0].rust(), self.extra)
        if k == "bracearray":
            return "[%s; { %s }]" % (self.args[0].rust(), self.extra[0])
        return T.rust(self)


def mk(kind, args=(), extra=None):
    return TT(kind, args, extra)


def src_text(t):
    """source text of a template type (may mention params / lifetimes / const names)"""
    k = t.kind
    if k in ("param", "selfdef", "lt_str", "lt_cow"):
        return TT.rust(t)
    if k == "paren":
        return "(%s)" % src_text(t.args[0])
    if k == "lt_ref":
        return "&%s %s" % (t.extra, src_text(t.args[0]))
    if k == "constarray":
        return "[%s; %s]" % (src_text(t.args[0]), t.extra)
    if k == "bracearray":
        return "[%s; { %s }]" % (src_text(t.args[0]), t.extra[0])
    if not t.args:
        return T.rust(t)
    # rebuild using T.rust on a shallow copy whose args are raw texts
    c = T(t.kind, [T("raw", extra=src_text(a)) for a in t.args], t.extra)
    return c.rust()


def subst(t, env, self_concrete):
    """concrete T after substituting params (env: name -> T), lifetimes -> 'static, const names -> values"""
    k = t.kind
    if k == "param":
        return env[t.extra]
    if k == "selfdef":
        return self_concrete
    if k == "lt_str":
        return STR
    if k == "lt_cow":
        return T("cow_str")
    if k == "paren":
        return subst(t.args[0], env, self_concrete)
    if k == "lt_ref":
        return T("ref", [subst(t.args[0], env, self_concrete)])
    if k == "constarray":
        return T("array", [subst(t.args[0], env, self_concrete)], env[t.extra])
    if k == "bracearray":
        return T("array", [subst(t.args[0], env, self_concrete)], t.extra[1])
    return T(t.kind, [subst(a, env, self_concrete) for a in t.args], t.extra)


def mentions_param(t):
    return t.kind in ("param", "constarray") or any(mentions_param(a) for a in t.args)


class DefGen:
    def __init__(self, seed, tier, tygen):
        self.r = random.Random(seed * 7919 + 13)
        # decisions added after the first rounds draw from a second stream, so that the definitions of earlier versions stay as they were
        self.r2 = random.Random(seed * 104729 + 7)
        self._margs = None
        self.tier = tier
        self.tg = tygen
        self.n = 0
        self.used_raw = set()
        self.stats = {"definitions": 0, "instantiations": 0, "with_encode": 0, "attrs": {}}

    def stat(self, k):
        self.stats["attrs"][k] = self.stats["attrs"].get(k, 0) + 1

    # ------------------------------------------------------------------ docs
    def docs(self, p=0.4):
        r = self.r
        if r.random() > p:
            return []
        n = r.choice([1, 1, 2, 3])
        out = []
        for _ in range(n):
            style = r.choice(["///", "///", "attr"])
            text = r.choice(DOC_POOL)
            if style == "attr" and r.random() < 0.15:
                # one doc attribute whose string spans two lines stays one entry
                text = r.choice([" first\nsecond", "a\n b", "\n"])
            out.append((style, text))
        return out

    @staticmethod
    def docs_src(docs, indent):
        s = ""
        for style, text in docs:
            if style == "///":
                s += "%s///%s\n" % (indent, text)
            else:
                s += "%s#[doc = %s]\n" % (indent, rust_str(text))
        return s

    @staticmethod
    def docs_expected(docs):
        out = []
        for style, text in docs:
            out.append(text[1:] if text.startswith(" ") else text)
        return out

    # ------------------------------------------------------------------ field types
    WRAPPERS = ("box", "rc", "arc", "ref", "refmut", "lt_ref", "paren")

    def field_type(self, tparams, selfname, lifetimes, consts, value_mode, depth=2):
        t = self.field_type0(tparams, selfname, lifetimes, consts, value_mode, depth)
        # a member declared as a transparent wrapper of PhantomData (`Rc<PhantomData<T>>`) is asserted neither way (erased or kept):
        # such members are kept out of the grammar, the marker itself takes their place
        u = t
        while u.kind in self.WRAPPERS and u.args:
            u = u.args[0]
        if u is not t and u.kind == "phantom":
            t = u
        if self.r2.random() < 0.04:
            # an array whose length is a braced block expression (the braces are part of the declared type's text)
            self.stat("array_length_in_braces")
            txt, val = self.r2.choice([("2 + 1", 3), ("4", 4), ("1 << 2", 4), ("{ 2 }", 2), ("usize::MIN + 2", 2)])
            return mk("bracearray", [self.r2.choice([U8, U16, BOOL])], (txt, val))
        if self.r2.random() < 0.05:
            # a real member whose type only shares its name with core's marker
            self.stat("member_of_user_type_named_PhantomData")
            inner = self.r2.choice([U8, U16, STRING, T("option", [U32])])
            up = mk("def", [inner], {"path": "vcommon::hand::units::PhantomData", "enc": True, "alias_of": None})
            return self.r2.choice([up, up, mk("vec", [up]), mk("tuple", [up, U8])])
        # a redundantly parenthesised type is the same type with a different source text
        if self.r.random() < 0.06 and t.kind not in ("phantom",):
            self.stat("parenthesised_type")
            return mk("paren", [t])
        return t

    def field_type0(self, tparams, selfname, lifetimes, consts, value_mode, depth=2):
        """template type for a member. value_mode: every instantiation must be encodable / sampleable"""
        r = self.r
        c = r.random()
        if tparams and c < 0.35:
            p = mk("param", extra=r.choice(tparams))
            w = r.random()
            if w < 0.4:
                return p
            k = r.choice(["vec", "option", "box", "array", "tuple", "phantom", "btreemap"])
            if k == "array":
                return mk("array", [p], r.choice([0, 2, 3]))
            if k == "tuple":
                return mk("tuple", [p, self.simple()])
            if k == "btreemap":
                return mk("btreemap", [U8, p])
            return mk(k, [p])
        if selfname and c < 0.45:
            s = mk("selfdef", extra=selfname)
            return r.choice([mk("option", [mk("box", [s])]), mk("vec", [s]), mk("option", [mk("rc", [s])]) if False else mk("vec", [s])])
        if lifetimes and c < 0.55:
            lt = r.choice(lifetimes)
            return r.choice([mk("lt_str", extra=lt), mk("lt_ref", [self.simple()], lt), mk("vec", [mk("tuple", [U8, mk("option", [mk("lt_str", extra=lt)])])]),
                             mk("lt_cow", extra=lt), mk("option", [mk("lt_cow", extra=lt)]), mk("lt_ref", [mk("lt_cow", extra=lt)], lt)])
        if consts and c < 0.62:
            return mk("constarray", [r.choice([U8, U16, BOOL])], r.choice(consts))
        if c < 0.66:
            return mk("phantom", [self.simple()])
        if c < 0.70:
            # a tuple whose first member is PhantomData, followed by several real members (erasure must keep their order)
            return mk("tuple", [mk("phantom", [self.simple()]), r.choice([U8, BOOL]), r.choice([U16, STRING]), r.choice([U32, U64])])
        # a closed built-in type expression
        t = self.tg.ty(r.choice([0, 1, 1, 2]), need_enc=value_mode, allow_bitvec=True)
        return t

    def simple(self):
        return self.r.choice([U8, U16, U32, U64, BOOL, STRING, P("i32"), T("option", [U8]), T("vec", [U16])])

    # ------------------------------------------------------------------ one definition
    def definition(self, modpath, value_mode):
        r = self.r
        self.n += 1
        name = "D%d" % self.n
        if (not value_mode) and r.random() < 0.08:
            # raw keywords can only be used once per module
            free = [k for k in ["struct", "enum", "fn", "match", "loop"] if (tuple(modpath), k) not in self.used_raw]
            if free:
                k = r.choice(free)
                self.used_raw.add((tuple(modpath), k))
                name = "r#" + k
        kind = r.choice(["struct", "struct", "enum"])
        ntp = r.choice([0, 0, 1, 1, 2, 3])
        # parameter names in declaration order, usually not alphabetical
        tparams = r.sample(["T", "U", "V", "A", "K", "Z", "Key", "Val", "E"], ntp)
        lifetimes = ["'a"] if r.random() < 0.2 else []
        if lifetimes and self.r2.random() < 0.6:
            # several lifetimes, with names that are prefixes of each other or of 'static
            lifetimes = self.r2.choice([["'a", "'arena"], ["'a", "'s"], ["'s"], ["'st", "'a", "'stat"], ["'static_", "'a"], ["'b", "'a"], ["'_a", "'a"]])
            self.stat("lifetime_names_related")
        consts = ["N"] if (r.random() < 0.15) else []
        d = {"name": name, "mod": modpath, "kind": kind, "tparams": tparams, "lifetimes": lifetimes, "consts": consts, "value": value_mode,
             "docs": self.docs(0.5), "capture": r.choice([None, None, "default", "always", "never", "ALWAYS" if not value_mode else "never"]),
             "replace": [], "skip_tp": [], "defaults": {}, "bounds": {}, "where": ""}
        generic_self = name + ("<%s>" % ", ".join(lifetimes + tparams + consts) if (tparams or lifetimes or consts) else "")
        # replace_segment rules: distinct keys, non chaining
        if r.random() < 0.3:
            segs = MOD_PREFIX + modpath + [name]
            keys = r.sample(sorted(set(segs)), r.choice([1, 1, 2]))
            if "dup" in segs and "dup" not in keys and r.random() < 0.7:
                keys[0] = "dup"
            for i, k in enumerate(keys):
                d["replace"].append((k, r.choice(["Renamed%d" % i, "r#raw%d" % i, "_x%d" % i, "other_mod%d" % i])))
            if r.random() < 0.3:
                d["replace"].append(("no_such_segment", "unused"))
            self.stat("replace_segment")
        # params that are only used in PhantomData may be skipped (they get a type without TypeInfo in some instantiations)
        shape = r.choice(["named", "named", "tuple", "unit"])
        if kind == "struct":
            d["shape"] = shape
            d["fields"] = self.fields(shape, tparams, generic_self, lifetimes, consts, value_mode)
        else:
            d["variants"] = self.variants(tparams, generic_self, lifetimes, consts, value_mode, d)
        used = self.used_params(d)
        # every lifetime / type parameter must be used; add phantom members for unused ones
        self.fix_unused(d, used)
        # skip_type_params: params used only inside PhantomData<..> members
        only_phantom = [p for p in tparams if self.only_in_phantom(d, p)]
        if only_phantom and r.random() < 0.6:
            d["skip_tp"] = r.sample(only_phantom, r.choice(range(1, len(only_phantom) + 1)))
            self.stat("skip_type_params")
        # defaults and bounds on parameters (mirror family only: codec derive copies bounds too, keep it simple there)
        if not value_mode:
            for p in tparams:
                if r.random() < 0.25:
                    d["bounds"][p] = r.choice(["Clone", "core::fmt::Debug", "Clone + Default", "Sized"])
                    self.stat("param_bound")
            if tparams and r.random() < 0.2 and not d["bounds"]:
                d["where"] = "where %s: Clone" % tparams[-1]
                self.stat("where_clause")
            if tparams and r.random() < 0.2:
                d["defaults"][tparams[-1]] = "u8"
                self.stat("param_default")
            if consts and (r.random() < 0.5 or any(p in d["defaults"] for p in tparams)):
                d["defaults"]["N"] = "3"
        d["insts"] = self.instantiations(d)
        d["macro"] = self.r2.random() < 0.15
        if d["macro"]:
            self.stat("defined_through_macro_rules_ty_fragments")
        return d

    def fields(self, shape, tparams, selfname, lifetimes, consts, value_mode, in_variant=False):
        r = self.r
        if shape == "unit":
            return []
        n = r.choice([1, 1, 2, 2, 3, 4, 6])
        out = []
        names = ["a", "b", "c", "d", "e", "f", "g"]
        for i in range(n):
            ft = self.field_type(tparams, selfname, lifetimes, consts, value_mode)
            f = {"ft": ft, "skip": False, "compact": False, "encoded_as": None, "rename": None, "docs": self.docs(0.3), "name": None}
            if shape == "named":
                f["name"] = names[i]
                if (not value_mode) and r.random() < 0.1:
                    f["name"] = "r#" + r.choice(["type", "fn", "match", "loop"]) if not any(x["name"] and x["name"].startswith("r#") for x in out) else names[i]
                if r.random() < 0.15:
                    f["rename"] = r.choice(["renamed", "type", "with space", "", "ünï", "a"])
                    self.stat("rename")
            x = r.random()
            if x < 0.12 and not mentions_param(ft) and ft.kind != "selfdef" and not self.has_self(ft):
                f["skip"] = True
                self.stat("field_skip")
            elif x < 0.30:
                # compact member: unsigned primitive, or a type parameter that instantiations fill with one
                if tparams and r.random() < 0.3:
                    f["ft"] = mk("param", extra=r.choice(tparams))
                    f["compact"] = True
                    f["compact_param"] = True
                else:
                    f["ft"] = P(r.choice(PRIMS_U))
                    f["compact"] = True
                self.stat("compact")
            elif x < 0.36 and value_mode:
                w = r.choice(["u8", "u16", "u32", "u64", "u128"])
                f["ft"] = P(w)
                f["encoded_as"] = r.choice(["<%s as HasCompact>::Type" % w, "Compact<%s>" % w])
                self.stat("encoded_as")
            out.append(f)
        if shape != "unit" and r.random() < 0.12 and len(out) < 6:
            e = r.choice([U8, U16, BOOL, STRING])
            pair = r.choice([[mk("array", [e], 4), mk("vec", [e])], [mk("vec", [e]), mk("array", [e], 2), mk("array", [e], 3)], [mk("range", [U32]), mk("rangeinc", [U32])],
                             [mk("option", [e]), mk("result", [e, e])]])
            for j, t in enumerate(pair):
                out.append({"ft": t, "skip": False, "compact": False, "encoded_as": None, "rename": None, "docs": [], "name": ("s%d" % j) if shape == "named" else None})
            self.stat("sibling_members")
        return out

    def has_self(self, t):
        return t.kind == "selfdef" or any(self.has_self(a) for a in t.args)

    def variants(self, tparams, selfname, lifetimes, consts, value_mode, d):
        r = self.r
        n = r.choice([1, 2, 3, 3, 4, 5, 8])
        fieldless = r.random() < 0.3
        use_discr = fieldless and r.random() < 0.6
        d["repr_u8"] = False
        if (not fieldless) and r.random() < 0.15:
            use_discr = True
            d["repr_u8"] = True
            self.stat("repr_u8_discriminants")
        out = []
        used_idx = set()
        pos = 0
        next_discr = 0
        for i in range(n):
            shape = "unit" if fieldless else r.choice(["unit", "tuple", "named"])
            v = {"name": "V%d" % i, "shape": shape, "fields": self.fields(shape, tparams, selfname, lifetimes, consts, value_mode, True),
                 "skip": False, "index": None, "discr": None, "docs": self.docs(0.3)}
            if r.random() < 0.15 and n > 1 and not any(mentions_param(f["ft"]) or self.has_self(f["ft"]) for f in v["fields"]):
                v["skip"] = True
                self.stat("variant_skip")
            # effective index per the codec rule: index attr > discriminant > position among non-skipped
            if use_discr and r.random() < 0.7:
                cand = r.choice([next_discr, next_discr + r.choice([0, 1, 5]), r.randrange(0, 200)])
                v["discr"] = cand
            if r.random() < (0.6 if v["skip"] else 0.3):
                # (skipped variants often carry an index too: two separate codec attributes on one variant, in either order)
                v["index"] = r.choice([0, 1, 2, 3, 7, 42, 200, 255, pos])
                self.stat("codec_index")
                if v["skip"]:
                    self.stat("variant_skip_and_index")
            if v["discr"] is not None:
                self.stat("discriminant")
            # rust discriminant sequence must stay unique and increasing-implicit
            if v["discr"] is not None:
                if v["discr"] < next_discr:
                    v["discr"] = next_discr
                next_discr = v["discr"] + 1
            else:
                next_discr += 1
            if next_discr > 250:
                v["discr"] = None
            if not v["skip"]:
                eff = v["index"] if v["index"] is not None else (v["discr"] if v["discr"] is not None else pos)
                tries = 0
                while eff in used_idx or eff > 255:
                    # resolve collisions by giving an explicit free index
                    tries += 1
                    cand = r.randrange(0, 256)
                    if cand not in used_idx:
                        v["index"] = cand
                        eff = cand
                used_idx.add(eff)
                v["eff_index"] = eff
                pos += 1
            out.append(v)
        if all(v["skip"] for v in out):
            out[0]["skip"] = False
            out[0]["eff_index"] = out[0]["index"] if out[0]["index"] is not None else (out[0]["discr"] if out[0]["discr"] is not None else 0)
        return out

    def all_fields(self, d):
        if d["kind"] == "struct":
            return list(d["fields"])
        return [f for v in d["variants"] for f in v["fields"]]

    def used_params(self, d):
        used = set()

        def walk(t):
            if t.kind == "param":
                used.add(t.extra)
            if t.kind in ("lt_str", "lt_ref", "lt_cow"):
                used.add(t.extra)
            if t.kind == "constarray":
                used.add(t.extra)
            for a in t.args:
                walk(a)
        for f in self.all_fields(d):
            walk(f["ft"])
        return used

    def fix_unused(self, d, used):
        missing_t = [p for p in d["tparams"] if p not in used]
        missing_l = [l for l in d["lifetimes"] if l not in used]
        missing_c = [c for c in d["consts"] if c not in used]
        extra = []
        for p in missing_t:
            extra.append(mk("phantom", [mk("param", extra=p)]))
        for l in missing_l:
            # with several related lifetime names every one of them shows up in the type name of a real member
            extra.append(mk("lt_str", extra=l) if len(d["lifetimes"]) > 1 else mk("phantom", [mk("lt_str", extra=l)]))
        for c in missing_c:
            extra.append(mk("constarray", [U8], c))
        if not extra:
            return
        if d["kind"] == "struct":
            if d["shape"] == "unit":
                d["shape"] = "tuple"
            target = d["fields"]
            named = d["shape"] == "named"
        else:
            v = d["variants"][0]
            for vv in d["variants"]:
                if not vv["skip"]:
                    v = vv
                    break
            if v["shape"] == "unit":
                v["shape"] = "tuple"
                if any(x["discr"] is not None for x in d["variants"]):
                    d["repr_u8"] = True
            target = v["fields"]
            named = v["shape"] == "named"
        for i, t in enumerate(extra):
            target.append({"ft": t, "skip": False, "compact": False, "encoded_as": None, "rename": None, "docs": [], "name": ("z%d" % i) if named else None})

    def only_in_phantom(self, d, p):
        ok = False

        def walk(t, under):
            nonlocal ok
            if t.kind == "param" and t.extra == p:
                if not under:
                    return False
                ok = True
            if t.kind == "selfdef":
                return False  # recursion mentions every parameter
            for a in t.args:
                if walk(a, under or t.kind == "phantom") is False:
                    return False
            return True
        for f in self.all_fields(d):
            if walk(f["ft"], False) is False:
                return False
        return ok

    # ------------------------------------------------------------------ instantiations
    def instantiations(self, d):
        r = self.r
        n = 1 if not (d["tparams"] or d["consts"]) else r.choice([1, 2, 2, 3])
        out = []
        seen = set()
        compact_params = {f["ft"].extra for f in self.all_fields(d) if f.get("compact_param")}
        # params used as BTreeMap value / anything: any encodable type; compact params: unsigned prim
        for _ in range(n):
            env = {}
            for p in d["tparams"]:
                if p in compact_params:
                    env[p] = P(r.choice(PRIMS_U))
                elif p in d["skip_tp"] and r.random() < 0.7:
                    env[p] = T("raw", extra="NoInfo")
                elif d["bounds"].get(p) or d["where"]:
                    env[p] = r.choice([U8, U32, STRING, BOOL, T("vec", [U8]), T("option", [U16])])
                else:
                    while True:
                        env[p] = self.tg.ty(r.choice([0, 0, 1, 2]), need_enc=d["value"], allow_bitvec=False)
                        # a parameter instantiated with (a wrapper of) PhantomData would erase members declared as `T`:
                        # wrappers of PhantomData are a grey zone of C17, keep them out of instantiations
                        if env[p].shallow() != "PhantomData":
                            break
                    def wraps(t, top=True):
                        # a transparent wrapper of the parameter somewhere at the top of a member or tuple-member type
                        if t.kind in self.WRAPPERS and t.args:
                            u = t
                            while u.kind in self.WRAPPERS and u.args:
                                u = u.args[0]
                            if u.kind == "param" and u.extra == p:
                                return True
                        return any(wraps(a, False) for a in t.args)
                    if self.r2.random() < 0.06 and not any(wraps(f["ft"]) for f in self.all_fields(d)):
                        # ... but PhantomData itself is an ordinary argument: the parameter carries its type id, members declared `T` are erased
                        env[p] = T("phantom", [self.r2.choice([U8, STRING, T("vec", [U16])])])
                        self.stat("parameter_instantiated_with_PhantomData")
            for c in d["consts"]:
                env[c] = r.choice([0, 1, 2, 3, 5])
            key = tuple((k, v.rust() if isinstance(v, T) else v) for k, v in sorted(env.items()))
            if key in seen:
                continue
            seen.add(key)
            out.append(env)
        return out

    # ------------------------------------------------------------------ emission
    def generics_src(self, d):
        parts = list(d["lifetimes"])
        for p in d["tparams"]:
            s = p
            if d["bounds"].get(p):
                s += ": " + d["bounds"][p]
            if p in d["defaults"]:
                s += " = " + d["defaults"][p]
            parts.append(s)
        for c in d["consts"]:
            s = "const %s: usize" % c
            if c in d["defaults"]:
                s += " = " + d["defaults"][c]
            parts.append(s)
        return "<%s>" % ", ".join(parts) if parts else ""

    def field_src(self, f, indent, pub=True):
        attrs = []
        if f["skip"]:
            attrs.append(indent + "#[codec(skip)]\n")
        if f["compact"]:
            attrs.append(indent + "#[codec(compact)]\n")
        if f["encoded_as"]:
            attrs.append(indent + "#[codec(encoded_as = %s)]\n" % rust_str(f["encoded_as"]))
        if f["rename"] is not None:
            attrs.append(indent + "#[scale_info(rename = %s)]\n" % rust_str(f["rename"]))
        # attribute order varies; docs before, between or after the other attributes
        self.r.shuffle(attrs)
        docs = self.docs_src(f["docs"], indent)
        k = self.r.randint(0, len(attrs))
        s = "".join(attrs[:k]) + docs + "".join(attrs[k:])
        vis = "pub " if pub else ""
        txt = src_text(f["ft"])
        if self._margs is not None:
            # the member's type reaches the derive as a `$t:ty` fragment (an invisible group), whole or as a generic argument
            k = len(self._margs)
            h = (len(txt) * 31 + k * 7) % 10
            if f["encoded_as"] or f["compact"]:
                # members with a codec attribute always arrive as one whole fragment
                self._margs.append(txt)
                txt = "$t%d" % k
            elif txt.startswith("Vec<") and txt.endswith(">") and h < 3:
                self._margs.append(txt[4:-1])
                txt = "Vec<$t%d>" % k
            elif h != 9:
                self._margs.append(txt)
                txt = "$t%d" % k
        if f["name"]:
            s += "%s%s%s: %s,\n" % (indent, vis, f["name"], txt)
        else:
            s += "%s%s%s,\n" % (indent, vis, txt)
        return s

    def def_has_bitvec(self, d):
        return any(f["ft"].has_bitvec() for f in self.all_fields(d))

    def def_src(self, d, indent, gate_bitvec=False):
        self._margs = [] if d.get("macro") else None
        body = self.def_src_inner(d, indent + ("        " if d.get("macro") else ""), gate_bitvec)
        margs, self._margs = self._margs, None
        consts = "".join("%s%s\n" % (indent, c) for c in sorted(d.get("consts_src", {}).values()))
        if d.get("macro"):
            mname = "mk_%s_%s" % ("_".join(d["mod"]).replace("r#", "raw_"), d["name"].replace("r#", "raw_"))
            body = "%smacro_rules! %s {\n%s    (%s) => {\n%s%s    };\n%s}\n%s%s!(%s);\n" % (
                indent, mname, indent, ", ".join("$t%d:ty" % i for i in range(len(margs))), body, indent, indent, indent, mname, ", ".join(margs))
        return consts + body

    def def_src_inner(self, d, indent, gate_bitvec=False):
        s = ""
        if gate_bitvec and self.def_has_bitvec(d):
            s += indent + '#[cfg(feature = "bit-vec")]\n'
        s += self.docs_src(d["docs"], indent)
        derives = "TypeInfo, Encode" if d["value"] else "TypeInfo"
        s += indent + "#[derive(%s)]\n" % derives
        attrs = []
        if d["capture"]:
            attrs.append('capture_docs = "%s"' % d["capture"])
        for a, b in d["replace"]:
            attrs.append("replace_segment(%s, %s)" % (rust_str(a), rust_str(b)))
        if d["skip_tp"]:
            attrs.append("skip_type_params(%s)" % ", ".join(d["skip_tp"]))
        # one combined attribute or several
        if attrs:
            if self.r.random() < 0.5:
                s += indent + "#[scale_info(%s)]\n" % ", ".join(attrs)
            else:
                for a in attrs:
                    s += indent + "#[scale_info(%s)]\n" % a
        if d.get("repr_u8"):
            s += indent + "#[repr(u8)]\n"
        g = self.generics_src(d)
        w = (" " + d["where"]) if d["where"] else ""
        if d["kind"] == "struct":
            if d["shape"] == "unit":
                s += "%spub struct %s%s%s;\n" % (indent, d["name"], g, w)
            elif d["shape"] == "tuple":
                s += "%spub struct %s%s(\n" % (indent, d["name"], g)
                for f in d["fields"]:
                    s += self.field_src(f, indent + "    ")
                s += "%s)%s;\n" % (indent, w)
            else:
                s += "%spub struct %s%s%s {\n" % (indent, d["name"], g, w)
                for f in d["fields"]:
                    s += self.field_src(f, indent + "    ")
                s += indent + "}\n"
        else:
            s += "%spub enum %s%s%s {\n" % (indent, d["name"], g, w)
            for v in d["variants"]:
                i2 = indent + "    "
                vattrs = []
                if v["skip"]:
                    vattrs.append(i2 + "#[codec(skip)]\n")
                if v["index"] is not None:
                    vattrs.append(i2 + "#[codec(index = %d)]\n" % v["index"])
                self.r.shuffle(vattrs)
                k = self.r.randint(0, len(vattrs))
                s += "".join(vattrs[:k]) + self.docs_src(v["docs"], i2) + "".join(vattrs[k:])
                discr = (" = %s" % self.discr_expr(v["discr"], d)) if v["discr"] is not None else ""
                if v["shape"] == "unit":
                    s += "%s%s%s,\n" % (i2, v["name"], discr)
                elif v["shape"] == "tuple":
                    s += "%s%s(\n" % (i2, v["name"])
                    for f in v["fields"]:
                        s += self.field_src(f, i2 + "    ", pub=False)
                    s += "%s)%s,\n" % (i2, discr)
                else:
                    s += "%s%s {\n" % (i2, v["name"])
                    for f in v["fields"]:
                        s += self.field_src(f, i2 + "    ", pub=False)
                    s += "%s}%s,\n" % (i2, discr)
            s += indent + "}\n"
        return s

    def discr_expr(self, val, d):
        """the same discriminant value written in different ways"""
        r = self.r
        forms = ["%d" % val, "0x%x" % val, "(%d)" % val, "%d + 0" % val, "0b%s" % bin(val)[2:]]
        if val > 0 and (val & (val - 1)) == 0:
            forms.append("1 << %d" % (val.bit_length() - 1))
        if 32 <= val < 127 and chr(val) not in "'\\" and d.get("repr_u8"):
            forms.append("b'%s'" % chr(val))
        if val >= 1:
            forms.append("%d - 1 + 1" % val)
        # a named constant defined next to the type
        cname = "K_%s_%d" % (d["name"].replace("r#", "raw_"), val)
        d.setdefault("consts_src", {})[cname] = "pub const %s: %s = %d;" % (cname, "u8" if d.get("repr_u8") else "isize", val)
        forms += [cname, cname]
        f = r.choice(forms)
        if f != cname and cname in d["consts_src"] and not any(cname in x for x in [f]):
            pass
        d.setdefault("discr_forms", []).append(f)
        return f

    def inst_text(self, d, env):
        path = "g::" + "::".join(d["mod"] + [d["name"]])
        args = ["'static" for _ in d["lifetimes"]] + [env[p].rust() for p in d["tparams"]] + ["%d" % env[c] for c in d["consts"]]
        return path + ("<%s>" % ", ".join(args) if args else "")

    def concrete_self(self, d, env):
        return T("def", [env[p] for p in d["tparams"]], {"path": self.inst_text(d, env), "enc": d["value"], "fulltext": True})

    def sample_model_src(self, d, env):
        inst = self.inst_text(d, env)
        me = T("raw", extra=inst)
        s = "impl vcommon::sample::Sample for %s {\n    fn sample(r: &mut vcommon::prng::Rng, d: u32) -> Self {\n        let d1 = d.saturating_sub(1);\n        let _ = (&r, d1);\n" % inst
        path = "g::" + "::".join(d["mod"] + [d["name"]])

        def ctor(shape, fields, head):
            if shape == "unit":
                return head
            if shape == "tuple":
                return head + "(" + ", ".join("vcommon::sample::Sample::sample(r, d1)" for _ in fields) + ")"
            return head + " { " + ", ".join("%s: vcommon::sample::Sample::sample(r, d1)" % f["name"] for f in fields) + " }"
        if d["kind"] == "struct":
            s += "        %s\n" % ctor(d["shape"], d["fields"], path)
        else:
            live = [v for v in d["variants"] if not v["skip"]]
            s += "        match r.below(%d) {\n" % len(live)
            for i, v in enumerate(live):
                s += "            %s => %s,\n" % (("%d" % i) if i < len(live) - 1 else "_", ctor(v["shape"], v["fields"], path + "::" + v["name"]))
            s += "        }\n"
        s += "    }\n}\n"
        s += "impl vcommon::sample::Model for %s {\n    fn model(&self) -> Val {\n" % inst

        def fname(f):
            if f["rename"] is not None:
                return "Some(%s)" % rust_str(f["rename"])
            if f["name"]:
                return "Some(%s)" % rust_str(f["name"])
            return "None"
        if d["kind"] == "struct":
            items = []
            for i, f in enumerate(d["fields"]):
                if f["skip"]:
                    continue
                acc = "self.%s" % (f["name"] if f["name"] else str(i))
                items.append("(%s, vcommon::sample::Model::model(&%s))" % (fname(f), acc))
            s += "        Val::composite(vec![%s])\n" % ", ".join(items)
        else:
            s += "        match self {\n"
            for v in d["variants"]:
                head = path + "::" + v["name"]
                if v["shape"] == "unit":
                    pat = head
                elif v["shape"] == "tuple":
                    pat = head + "(" + ", ".join("f%d" % i for i in range(len(v["fields"]))) + ")"
                else:
                    pat = head + " { " + ", ".join("%s: f%d" % (f["name"], i) for i, f in enumerate(v["fields"])) + " }"
                if v["skip"]:
                    s += "            %s => { %s unreachable!(\"skipped variant sampled\") }\n" % (pat, " ".join("let _ = f%d;" % i for i in range(len(v["fields"]))))
                    continue
                items = []
                for i, f in enumerate(v["fields"]):
                    if f["skip"]:
                        items.append(None)
                        continue
                    items.append("(%s, vcommon::sample::Model::model(f%d))" % (fname(f), i))
                unused = " ".join("let _ = f%d;" % i for i, it in enumerate(items) if it is None)
                s += "            %s => { %s Val::variant(%s, None, vec![%s]) }\n" % (pat, unused, rust_str(v["name"]), ", ".join(x for x in items if x))
            s += "        }\n"
        s += "    }\n}\n"
        return s

    def decl_src(self, d, env):
        """declaration model (R9) of one instantiation as a Rust literal"""
        inst = self.inst_text(d, env)
        me = self.concrete_self(d, env)
        # path with replace rules applied per segment (first matching rule)
        segs = MOD_PREFIX + d["mod"] + [d["name"]]
        rep = dict()
        for a, b in d["replace"]:
            rep.setdefault(a, b)
        segs = [rep.get(x, x) for x in segs]

        def did(txt):
            return "|| ::std::any::TypeId::of::<<%s as ::scale_info::TypeInfo>::Identity>()" % txt
        params = []
        for p in d["tparams"]:
            if p in d["skip_tp"]:
                params.append("(%s, None)" % rust_str(p))
            else:
                params.append("(%s, Some(%s))" % (rust_str(p), did(env[p].rust())))

        def field_model(f):
            if f["skip"]:
                return None
            conc = subst(f["ft"], env, T("raw", extra=inst))
            if conc.kind == "phantom":
                return None
            txt = conc.rust()
            if f["compact"]:
                txt = "Compact<%s>" % txt
            name = f["rename"] if f["rename"] is not None else f["name"]
            tn = src_text(f["ft"])
            tn = re.sub(r"'[A-Za-z_][A-Za-z0-9_]*", lambda m: "'static" if m.group(0) in d["lifetimes"] else m.group(0), tn)
            tn = "".join(tn.split())
            return "FieldM { name: %s, ty: %s, check_ty: %s, type_name: %s, docs: &[%s] }" % (
                ("Some(%s)" % rust_str(name)) if name is not None else "None", did(txt), "false" if f["encoded_as"] else "true", rust_str(tn),
                ", ".join(rust_str(x) for x in self.docs_expected(f["docs"])))
        if d["kind"] == "struct":
            fms = [field_model(f) for f in d["fields"]]
            body = "Body::Struct(&[%s])" % ", ".join(x for x in fms if x)
        else:
            vs = []
            for v in d["variants"]:
                if v["skip"]:
                    continue
                fms = [field_model(f) for f in v["fields"]]
                vs.append("VariantM { name: %s, index: %d, fields: &[%s], docs: &[%s] }" % (
                    rust_str(v["name"]), v["eff_index"], ", ".join(x for x in fms if x), ", ".join(rust_str(x) for x in self.docs_expected(v["docs"]))))
            body = "Body::Enum(&[%s])" % ", ".join(vs)
        cap = {None: 0, "default": 0, "always": 1, "ALWAYS": 1, "never": 2}[d["capture"]]
        return "        Decl { inst: %s, meta: || ::scale_info::meta_type::<%s>(), path: &[%s], params: &[%s], capture: %d, docs: &[%s], body: %s },\n" % (
            rust_str(inst), inst, ", ".join(rust_str(x) for x in segs), ", ".join(params), cap, ", ".join(rust_str(x) for x in self.docs_expected(d["docs"])), body)

    def tags(self, d):
        t = set()
        fs = self.all_fields(d)
        for f in fs:
            for k in ("skip", "compact", "encoded_as"):
                if f[k]:
                    t.add(k)
            if f["rename"] is not None:
                t.add("rename")
            if f["ft"].kind == "phantom":
                t.add("phantom")
            if self.has_self(f["ft"]):
                t.add("recursive")
        if d["kind"] == "enum":
            t.add("enum")
            for v in d["variants"]:
                if v["skip"]:
                    t.add("variant_skip")
                if v["index"] is not None:
                    t.add("index")
                if v["discr"] is not None:
                    t.add("discriminant")
        else:
            t.add("struct_" + d["shape"])
        if d["tparams"]:
            t.add("generic")
        if d["lifetimes"]:
            t.add("lifetime")
        if d["consts"]:
            t.add("const_param")
        return ",".join(sorted(t))

    def shapes_of(self, d):
        """fine-grained shape features of one definition (used for the coverage floor of the generated corpus)"""
        s = set()
        fs = self.all_fields(d)

        def mentions_user_phantom(t):
            return (t.kind == "def" and isinstance(t.extra, dict) and t.extra.get("path", "").endswith("units::PhantomData")) or any(mentions_user_phantom(a) for a in t.args)
        for f in fs:
            if f["skip"]:
                s.add("field_skip")
            if f["compact"]:
                s.add("compact_param" if f.get("compact_param") else "compact")
                if f["ft"].kind == "prim" and f["ft"].extra in ("u64", "u128"):
                    s.add("compact_wide")
            if f["encoded_as"]:
                s.add("encoded_as_qualified" if f["encoded_as"].startswith("<") else "encoded_as_compact")
            if f["rename"] is not None:
                s.add("rename")
                if f["compact"] or f["encoded_as"]:
                    s.add("rename_with_codec_attr")
            if f["docs"]:
                s.add("member_docs")
                if f["name"] is None:
                    s.add("unnamed_member_docs")
            if f["ft"].kind == "phantom":
                s.add("phantom_member")
            if self.has_self(f["ft"]):
                s.add("recursive")
            if mentions_user_phantom(f["ft"]):
                s.add("user_type_named_phantomdata")
            if f["ft"].kind == "paren":
                s.add("paren")

            def leaves(t):
                if t.kind in ("prim", "nonzero"):
                    s.add("leaf_" + t.extra)
                elif t.kind in ("string", "str_ref", "duration", "char", "unit", "cow_str", "lt_str", "lt_cow"):
                    s.add("leaf_" + t.kind)
                elif t.kind in ("compact", "range", "rangeinc", "btreemap", "btreeset", "binaryheap", "vecdeque", "result", "option", "cow", "cow_slice", "bracearray", "constarray", "rc", "arc", "refmut"):
                    s.add("ctor_" + t.kind)
                for a in t.args:
                    leaves(a)
            if not f["skip"]:
                leaves(f["ft"])
            if f["ft"].has_bitvec():
                s.add("bitvec_member")
        lists = [d["fields"]] if d["kind"] == "struct" else [v["fields"] for v in d["variants"]]
        for l in lists:
            live = [f for f in l if not f["skip"]]
            for i, f in enumerate(live):
                if f["ft"].kind == "phantom" and i + 1 < len(live) and any(g["ft"].kind != "phantom" for g in live[i + 1:]):
                    s.add("phantom_then_real_member")
            if any(f["skip"] for f in l) and any(not f["skip"] for f in l[1:]):
                s.add("skip_then_real_member")
        sampleable = d["value"] and any(not any(isinstance(v, T) and v.kind == "raw" and v.extra == "NoInfo" for v in env.values()) for env in d.get("insts", [{}]))
        if sampleable:
            s.add("sampleable")
        if d["kind"] == "enum":
            pos = 0
            for v in d["variants"]:
                if not v["skip"]:
                    # the index a decoder must find differs from the variant's position, and comes from the discriminant alone
                    if v["discr"] is not None and v["index"] is None and v["discr"] != pos and sampleable:
                        s.add("discriminant_decides_index_of_data_variant" if v["fields"] else "discriminant_decides_index_of_unit_variant")
                    if v["index"] is not None and v["index"] != pos and sampleable:
                        s.add("index_attribute_decides_index")
                    if v["index"] is not None and v["discr"] is not None and v["index"] != v["discr"] and sampleable:
                        s.add("index_attribute_beats_discriminant")
                    pos += 1
            for v in d["variants"]:
                if v["skip"]:
                    s.add("variant_skip")
                    if v["index"] is not None:
                        s.add("variant_skip_and_index")
                if v["index"] is not None:
                    s.add("index")
                if v["discr"] is not None:
                    s.add("discriminant_on_data_variant" if v["fields"] else "discriminant_fieldless")
                if v["shape"] == "named":
                    s.add("variant_named")
                if v["shape"] == "tuple":
                    s.add("variant_tuple")
        else:
            s.add("struct_" + d["shape"])
        if d["tparams"]:
            s.add("generic")
        if len(d["tparams"]) >= 2:
            s.add("generic2")
        if d["lifetimes"]:
            s.add("lifetime")
        if len(d["lifetimes"]) > 1:
            s.add("lifetimes_related")
        if d["consts"]:
            s.add("const_param")
        if d["replace"]:
            s.add("replace_segment")
            segs = MOD_PREFIX + d["mod"] + [d["name"]]
            if any(segs.count(a) > 1 for a, _ in d["replace"]):
                s.add("replace_segment_that_occurs_twice")
            if any(a == d["name"] for a, _ in d["replace"]):
                s.add("replace_own_name")
            if any(b.startswith("r#") for a, b in d["replace"] if a in segs):
                s.add("replace_with_raw_identifier")
        if any(isinstance(v, T) and v.kind == "phantom" for env in d.get("insts", []) for v in env.values()):
            s.add("parameter_instantiated_with_PhantomData")
        # the shared PhantomData placeholder really enters the registry of a sampleable instantiation (as the type of a
        # non-skipped parameter, or below the top of a member's type), and other types are met after it
        for env in d.get("insts", []):
            if any(isinstance(v, T) and v.kind == "raw" for v in env.values()):
                continue
            if any(isinstance(env.get(pn), T) and env[pn].kind == "phantom" and pn not in d["skip_tp"] for pn in d["tparams"]) and sampleable and len(fs) >= 2:
                s.add("placeholder_registered_through_a_parameter")

        def below_top(t, top=True):
            if t.kind == "phantom" and not top:
                return True
            return any(below_top(a, False) for a in t.args)
        for l in lists:
            live = [f for f in l if not f["skip"]]
            for i, f in enumerate(live):
                if f["ft"].kind not in ("phantom", "tuple") and below_top(f["ft"]) and i + 1 < len(live) and sampleable:
                    s.add("placeholder_registered_through_a_member")
        if d["skip_tp"]:
            s.add("skip_type_params")
        if d["docs"]:
            s.add("docs")
        if d["capture"] in ("always", "ALWAYS"):
            s.add("capture_always")
        if d["capture"] == "never":
            s.add("capture_never")
        if d.get("macro"):
            s.add("macro")
            if any(f["encoded_as"] for f in fs) and sampleable:
                s.add("macro_encoded_as")
            if any(f["compact"] for f in fs) and sampleable:
                s.add("macro_compact")
        if d["name"].startswith("r#"):
            s.add("raw_name")
        return s

    # every generated corpus, whatever the seed, contains each of these shapes (value family = derives Encode too)
    FLOOR_VALUE = ["field_skip", "compact", "compact_param", "encoded_as_qualified", "encoded_as_compact", "rename", "rename_with_codec_attr", "phantom_member", "phantom_then_real_member",
                   "skip_then_real_member", "recursive", "user_type_named_phantomdata", "variant_skip", "variant_skip_and_index", "index", "discriminant_on_data_variant", "discriminant_fieldless",
                   "discriminant_decides_index_of_data_variant", "discriminant_decides_index_of_unit_variant", "index_attribute_decides_index", "index_attribute_beats_discriminant",
                   "variant_named", "variant_tuple", "struct_named", "struct_tuple", "struct_unit", "generic", "generic2", "lifetime", "const_param", "macro", "macro_encoded_as", "macro_compact",
                   "bitvec_member", "member_docs", "paren", "ctor_bracearray", "ctor_constarray", "parameter_instantiated_with_PhantomData", "compact_wide",
                   "placeholder_registered_through_a_parameter", "placeholder_registered_through_a_member",
                   "leaf_string", "leaf_str_ref", "leaf_duration", "leaf_unit", "leaf_bool", "ctor_compact", "ctor_range", "ctor_rangeinc", "ctor_btreemap", "ctor_btreeset", "ctor_binaryheap",
                   "ctor_vecdeque", "ctor_result", "ctor_option", "ctor_cow", "ctor_rc", "ctor_arc"] + ["leaf_" + x for x in PRIMS_U + PRIMS_I] + [
                   "leaf_" + x for x in ["NonZeroU8", "NonZeroU16", "NonZeroU32", "NonZeroU64", "NonZeroU128", "NonZeroI8", "NonZeroI16", "NonZeroI32", "NonZeroI64", "NonZeroI128"]]
    FLOOR_MIRROR = ["rename", "phantom_member", "lifetime", "lifetimes_related", "const_param", "replace_segment", "skip_type_params", "docs", "member_docs", "unnamed_member_docs", "capture_always",
                    "capture_never", "macro", "user_type_named_phantomdata", "raw_name", "paren", "discriminant_fieldless", "index", "variant_skip", "generic2", "recursive",
                    "replace_segment_that_occurs_twice", "replace_own_name", "replace_with_raw_identifier", "ctor_bracearray", "ctor_constarray", "parameter_instantiated_with_PhantomData",
                    "leaf_lt_str", "leaf_lt_cow"]

    def generate(self):
        r = self.r
        n_defs = 400 if self.tier == "thorough" else 90
        # module tree: a few nested modules, some with raw names
        # "dup::dup": a segment name that occurs twice in one path (replace_segment must rewrite every occurrence)
        mods = [[], ["m1"], ["m1", "inner"], ["m2"], ["r#mod"], ["m2", "r#type", "deep"], ["dup", "dup"]]
        by_mod = {}
        defs = []
        for i in range(n_defs):
            m = r.choice(mods)
            value_mode = r.random() < 0.7
            d = self.definition(m, value_mode)
            defs.append(d)
            by_mod.setdefault(tuple(m), []).append(d)
        # coverage floor: keep generating, and keep a definition only if it brings a required shape that is still missing
        have_v, have_m = set(), set()
        for d in defs:
            (have_v if d["value"] else have_m).update(self.shapes_of(d))
        need_v = [x for x in self.FLOOR_VALUE if x not in have_v]
        need_m = [x for x in self.FLOOR_MIRROR if x not in have_m]
        attempts = 0
        while (need_v or need_m) and attempts < 6000:
            attempts += 1
            m = r.choice(mods)
            value_mode = bool(need_v) and (not need_m or r.random() < 0.6)
            d = self.definition(m, value_mode)
            sh = self.shapes_of(d)
            need = need_v if value_mode else need_m
            got = [x for x in need if x in sh]
            if not got:
                continue
            for x in got:
                need.remove(x)
            self.stat("definitions_added_for_the_coverage_floor")
            defs.append(d)
            by_mod.setdefault(tuple(m), []).append(d)
        self.stats["coverage_floor_missing"] = need_v + need_m
        # the largest enums the codec allows: 256 variants (indices 0..=255), next to 255 and to explicit indices counted down
        for name, n, rev in [("Big256", 256, False), ("Big255", 255, False), ("Big256Rev", 256, True)]:
            vs = []
            for i in range(n):
                shape = "tuple" if i in (0, 100, n - 1) else "unit"
                fields = [{"ft": U16, "skip": False, "compact": False, "encoded_as": None, "rename": None, "docs": [], "name": None}] if shape == "tuple" else []
                vs.append({"name": "V%d" % i, "shape": shape, "fields": fields, "skip": False, "index": (n - 1 - i) if rev else None, "discr": None, "docs": [],
                           "eff_index": (n - 1 - i) if rev else i})
            d = {"name": name, "mod": [], "kind": "enum", "tparams": [], "lifetimes": [], "consts": [], "value": True, "docs": [], "capture": None, "replace": [],
                 "skip_tp": [], "defaults": {}, "bounds": {}, "where": "", "variants": vs, "repr_u8": False, "insts": [{}], "macro": False}
            self.stat("enum_with_%d_variants" % n)
            defs.append(d)
            by_mod.setdefault((), []).append(d)
        src = ""
        # emit module tree

        def emit_mod(path, indent, gate=False):
            s = ""
            for d in by_mod.get(tuple(path), []):
                s += self.def_src(d, indent, gate) + "\n"
            children = sorted({m[len(path)] for m in map(list, by_mod.keys()) if len(m) > len(path) and m[:len(path)] == path})
            for c in children:
                s += "%spub mod %s {\n%s    use super::*;\n" % (indent, c, indent)
                s += emit_mod(path + [c], indent + "    ", gate)
                s += indent + "}\n"
            return s
        # make sure intermediate modules exist in by_mod keys
        for m in mods:
            by_mod.setdefault(tuple(m), [])
        # def_src is not pure (it draws the attribute layout): draw once with a forked RNG state for the gated variant
        st = self.r.getstate()
        src += emit_mod([], "    ")
        self.r.setstate(st)
        self.fp_src = emit_mod([], "    ", True)
        entries = []
        impls = ""
        decls = "pub fn decls() -> Vec<vcommon::decl::Decl> {\n    use prelude::*;\n    use vcommon::decl::*;\n    vec![\n"
        for d in defs:
            self.stats["definitions"] += 1
            if d["value"]:
                self.stats["with_encode"] += 1
            for env in d["insts"]:
                self.stats["instantiations"] += 1
                inst = self.inst_text(d, env)
                has_noinfo = any(isinstance(v, T) and v.kind == "raw" and v.extra == "NoInfo" for v in env.values())
                enc = d["value"] and not has_noinfo
                me = T("def", [env[p] for p in d["tparams"]], {"path": inst})
                dp = "%s<%s>" % ("g::" + "::".join(d["mod"] + [d["name"]]), ",".join([env[p].deep() for p in d["tparams"]] + [str(env[c]) for c in d["consts"]]))
                entries.append((inst, inst, dp, enc, self.tags(d) + (",bitvec_member" if self.def_has_bitvec(d) or any(isinstance(v, T) and v.has_bitvec() for v in env.values()) else "")))
                if enc:
                    impls += self.sample_model_src(d, env)
                decls += self.decl_src(d, env)
        decls += "    ]\n}\n"
        src_all = src
        return src_all, entries, "mod sm {\n    use super::prelude::*;\n    use super::g;\n" + impls + "}\n\n" + decls, self.stats
