# Driver for the runtime-monitoring checks. stdlib only (python 3.11).
import fcntl
import hashlib
import json
import os
import re
import shutil
import signal
import subprocess
import sys
import time

VERIF = os.path.dirname(os.path.dirname(os.path.abspath(__file__)))
REPO = "/repo"
TARGET = os.path.join(VERIF, "target")
WORK = os.path.join(VERIF, "work")
HARNESS = os.path.join(VERIF, "harness")
EVID = os.path.join(VERIF, "evidence")
REPLAYS = os.path.join(VERIF, "replays")
CFG_FLAGS = "--cfg scale_info_verif --check-cfg cfg(scale_info_verif) --check-cfg cfg(have_hooks)"
NCPU = min(16, os.cpu_count() or 4)


def log(*a):
    print(*a, file=sys.stderr, flush=True)


def base_env():
    e = dict(os.environ)
    e["PATH"] = "/root/.cargo/bin:" + e.get("PATH", "/usr/bin:/bin")
    e["CARGO_NET_OFFLINE"] = "true"
    e["CARGO_TARGET_DIR"] = TARGET
    e["RUSTFLAGS"] = CFG_FLAGS
    e["CARGO_TERM_COLOR"] = "never"
    e.pop("RUSTC_WRAPPER", None)
    e["VERIF_DIR"] = VERIF
    return e


class Inconclusive(Exception):
    pass


def repo_hash():
    h = hashlib.sha256()
    roots = [os.path.join(REPO, "Cargo.toml"), os.path.join(REPO, "src"), os.path.join(REPO, "derive")]
    files = []
    for r in roots:
        if os.path.isfile(r):
            files.append(r)
        else:
            for d, dn, fn in os.walk(r):
                dn[:] = [x for x in dn if x != "target"]
                for f in fn:
                    files.append(os.path.join(d, f))
    for f in sorted(files):
        h.update(f.encode())
        with open(f, "rb") as fh:
            h.update(fh.read())
    return h.hexdigest()


class Lock:
    def __init__(self, name="build"):
        os.makedirs(TARGET, exist_ok=True)
        self.path = os.path.join(TARGET, ".verif-%s.lock" % name)

    def __enter__(self):
        self.fh = open(self.path, "w")
        fcntl.flock(self.fh, fcntl.LOCK_EX)
        return self

    def __exit__(self, *a):
        fcntl.flock(self.fh, fcntl.LOCK_UN)
        self.fh.close()


def ensure_fresh(env):
    """cargo's freshness test is mtime based; make sure a restored file with an old mtime cannot be missed."""
    stamp = os.path.join(TARGET, ".verif-repo-hash")
    h = repo_hash()
    old = None
    if os.path.exists(stamp):
        old = open(stamp).read().strip()
    if old != h:
        if old is not None:
            log("[build] /repo sources changed since last build: cleaning scale-info artefacts")
            subprocess.run(["cargo", "clean", "--offline", "-p", "scale-info", "-p", "scale-info-derive"],
                           cwd=HARNESS, env=env, stdout=subprocess.DEVNULL, stderr=subprocess.DEVNULL)
            subprocess.run(["cargo", "clean", "--offline", "--release", "-p", "scale-info", "-p", "scale-info-derive"],
                           cwd=HARNESS, env=env, stdout=subprocess.DEVNULL, stderr=subprocess.DEVNULL)
        with open(stamp, "w") as fh:
            fh.write(h)
    return h


def build_rt(features=(), extra_env=None, tag=None, package="rt", toolchain=None, extra_args=(), target_dir=None, profile=None):
    """Build a harness binary against /repo's current working tree. Returns path of a private copy of it."""
    env = base_env()
    if extra_env:
        env.update(extra_env)
    if target_dir:
        env["CARGO_TARGET_DIR"] = target_dir
    feats = ",".join(features)
    tag = tag or (package + ("-" + feats.replace(",", "+") if feats else ""))
    with Lock():
        ensure_fresh(env)
        cmd = ["cargo"] + (["+" + toolchain] if toolchain else []) + ["build", "--offline", "-p", package, "--message-format=json-render-diagnostics"]
        if feats:
            cmd += ["--features", feats]
        if profile:
            cmd += ["--profile", profile]
            tag = tag + "-" + profile
        cmd += list(extra_args)
        t0 = time.time()
        p = subprocess.run(cmd, cwd=HARNESS, env=env, stdout=subprocess.PIPE, stderr=subprocess.PIPE, text=True)
        exe = None
        for line in p.stdout.splitlines():
            try:
                m = json.loads(line)
            except Exception:
                continue
            if m.get("reason") == "compiler-artifact" and m.get("executable") and m.get("target", {}).get("name") == package:
                exe = m["executable"]
        if p.returncode != 0 or not exe:
            lines = p.stderr.splitlines()
            errs = [i for i, l in enumerate(lines) if l.startswith("error")]
            tail = "\n".join(lines[errs[0]:errs[0] + 40]) if errs else "\n".join(lines[-40:])
            raise Inconclusive("harness does not build against /repo (cargo exit %s):\n%s" % (p.returncode, tail))
        os.makedirs(os.path.join(WORK, "bin"), exist_ok=True)
        dst = os.path.join(WORK, "bin", "%s-%d" % (tag, os.getpid()))
        shutil.copy2(exe, dst)
        log("[build] %s built in %.1fs" % (tag, time.time() - t0))
        return dst


def run_rt(exe, args, timeout, out_name):
    """Run the monitored binary; returns (report-or-None, returncode, stderr-tail)."""
    os.makedirs(os.path.join(WORK, "out"), exist_ok=True)
    out = os.path.join(WORK, "out", "%s-%d.json" % (out_name, os.getpid()))
    if os.path.exists(out):
        os.remove(out)
    cmd = [exe] + [str(a) for a in args] + ["--out", out]
    env = base_env()
    try:
        p = subprocess.run(cmd, env=env, stdout=subprocess.PIPE, stderr=subprocess.PIPE, text=True, timeout=timeout, errors="replace")
    except subprocess.TimeoutExpired:
        return None, "timeout", ""
    rep = None
    if os.path.exists(out):
        try:
            rep = json.load(open(out))
        except Exception:
            rep = None
        os.remove(out)
    return rep, p.returncode, "\n".join(p.stderr.splitlines()[-30:])


def load_known():
    p = os.path.join(VERIF, "known_findings.json")
    if not os.path.exists(p):
        return []
    return json.load(open(p))["findings"]


class Outcome:
    """Folded result of one check run."""

    def __init__(self, prop, tier, seed, level):
        self.prop, self.tier, self.seed, self.level = prop, tier, seed, level
        self.evaluations = 0
        self.distinct = 0
        self.rule = ""
        self.samples = []
        self.extra = {}
        self.assumptions = []
        self.violations = []   # dicts {key,msg,case}
        self.violation_count = 0
        self.inconclusive = []
        self.replay_base = {}
        self.t0 = time.time()

    def add_report(self, rep, prefix=""):
        self.evaluations += rep.get("evaluations", 0)
        self.distinct += rep.get("distinct_nontrivial", 0)
        for s in rep.get("samples", []):
            if len(self.samples) < 8:
                self.samples.append(s)
        for k in ("counters", "maxes", "sets"):
            if rep.get(k):
                d = self.extra.setdefault(prefix + k, {})
                for kk, vv in rep[k].items():
                    if k == "counters":
                        d[kk] = d.get(kk, 0) + vv
                    elif k == "maxes":
                        d[kk] = max(d.get(kk, 0), vv)
                    else:
                        d[kk] = sorted(set(d.get(kk, [])) | set(vv))
        self.violations += rep.get("violations", [])
        self.violation_count += rep.get("violation_count", 0)
        self.inconclusive += rep.get("inconclusive", [])

    def counter(self, name, prefix=""):
        return self.extra.get(prefix + "counters", {}).get(name, 0)

    def need(self, names, prefix=""):
        """coverage floor: each named counter must have been observed"""
        for n in names:
            if self.counter(n, prefix) <= 0:
                self.inconclusive.append("coverage floor missed: no `%s` event observed" % n)


def finish(o):
    """Write evidence, print verdict lines, return exit code."""
    known = [k for k in load_known() if k["property"] == o.prop and k.get("status") == "open"]
    known_keys = {k["key"]: k for k in known}
    real = []
    known_hit = {}
    for v in o.violations:
        if v["key"] in known_keys:
            known_hit.setdefault(v["key"], []).append(v)
        else:
            real.append(v)
    # violations beyond the stored ones (dropped for space) are attributed by their counters
    dropped = {k[len("violations_dropped["):-1]: n for k, n in o.extra.get("counters", {}).items() if k.startswith("violations_dropped[")}
    for key in dropped:
        if key not in known_keys and not any(v["key"] == key for v in real):
            real.append({"key": key, "msg": "(details dropped)", "case": None})
    os.makedirs(EVID, exist_ok=True)
    os.makedirs(REPLAYS, exist_ok=True)
    lines = []
    for key, vs in known_hit.items():
        lines.append("KNOWN-FINDING: property=%s %s [%s; %d occurrence(s) this run]" % (o.prop, known_keys[key]["what"], key, len(vs) + dropped.get(key, 0)))
    rc = 0
    seen_keys = set()
    for n, v in enumerate(real):
        if v["key"] in seen_keys:
            continue
        seen_keys.add(v["key"])
        rp = os.path.join(REPLAYS, "%s-%s-seed%d-%d.json" % (o.prop, v["key"].replace("/", "_"), o.seed, n))
        with open(rp, "w") as fh:
            json.dump({"property": o.prop, "seed": o.seed, "tier": o.tier, "key": v["key"], "message": v["msg"], "case": v["case"], "replay": o.replay_base}, fh, indent=1)
        lines.append("VIOLATION property=%s replay=%s" % (o.prop, rp))
        log("  violation [%s]: %s" % (v["key"], v["msg"][:1500]))
        rc = 1
    if rc == 0 and o.inconclusive:
        for w in o.inconclusive[:5]:
            lines.append("INCONCLUSIVE property=%s reason=%s" % (o.prop, w.replace("\n", " | ")[:600]))
        rc = 2
    cov = {
        "evaluations": int(o.evaluations),
        "distinct_nontrivial": int(o.distinct),
        "rule": o.rule,
        "samples": o.samples if o.samples else ["(no case was executed)"],
    }
    cov.update(o.extra)
    cov["known_findings_hit"] = sorted(known_hit)
    cov["verdict"] = {0: "held on everything explored", 1: "violated", 2: "inconclusive"}[rc]
    if o.inconclusive:
        cov["inconclusive_reasons"] = o.inconclusive[:10]
    ev = {
        "property_id": o.prop,
        "tier": o.tier,
        "seed": o.seed,
        "level": o.level,
        "coverage": cov,
        "assumptions": o.assumptions,
        "wall_s": round(time.time() - o.t0, 2),
        "violations": len(seen_keys),
    }
    with open(os.path.join(EVID, "%s.json" % o.prop), "w") as fh:
        json.dump(ev, fh, indent=1, sort_keys=True)
    for l in lines:
        print(l)
    print("%s %s tier=%s seed=%d evaluations=%d distinct=%d wall=%.1fs" % (
        o.prop, cov["verdict"].upper(), o.tier, o.seed, o.evaluations, o.distinct, time.time() - o.t0), flush=True)
    return rc


def rt_pass(o, exe, sub, args, timeout, crash_is_violation=None, prefix="", name=None):
    """One run of the monitored binary folded into outcome `o`.
    crash_is_violation: None, or a (key, text) pair used when the child dies from a signal / abort."""
    name = name or ("%s-%s" % (o.prop, sub))
    full = [sub, "--prop", o.prop, "--seed", o.seed, "--tier", o.tier, "--threads", NCPU] + list(args)
    rep, rc, err = run_rt(exe, full, timeout, name)
    if rc == "timeout":
        o.inconclusive.append("watchdog: `%s` did not finish within %ds" % (sub, timeout))
        return None
    if rep is None or rc != 0:
        if crash_is_violation and isinstance(rc, int) and rc < 0 or (crash_is_violation and rc in (134, 139)):
            # locate the case single-stepped
            prog = os.path.join(WORK, "out", "progress-%d" % os.getpid())
            rep2, rc2, err2 = run_rt(exe, full + ["--threads", 1, "--progress", prog], timeout * 4, name + "-locate")
            case = None
            if os.path.exists(prog):
                case = open(prog).read().strip()
                os.remove(prog)
            if rep2 is None:
                key, text = crash_is_violation
                o.violations.append({"key": key, "msg": "%s (child died with status %s; single-stepped re-run died in case %s)\n%s" % (text, rc, case, err2[-800:]), "case": {"case": case, "seed": o.seed, "args": [str(x) for x in full]}})
                o.violation_count += 1
                return None
            o.inconclusive.append("child died (status %s) but the single-stepped re-run completed" % rc)
            return None
        o.inconclusive.append("monitored binary failed (status %s) without a report: %s" % (rc, err[-600:]))
        return None
    o.add_report(rep, prefix)
    return rep


def gen_corpus(seed, tier):
    """Run the seeded program generator; returns the directory holding corpus.rs."""
    d = os.path.join(WORK, "gen", "%d-%s" % (seed, tier))
    os.makedirs(d, exist_ok=True)
    tmp = d + ".tmp-%d" % os.getpid()
    os.makedirs(tmp, exist_ok=True)
    p = subprocess.run(["/usr/bin/python3", os.path.join(VERIF, "gen", "corpus.py"), str(seed), tier, tmp], stdout=subprocess.PIPE, stderr=subprocess.PIPE, text=True,
                       env={"PYTHONDONTWRITEBYTECODE": "1", "PATH": "/usr/bin:/bin"})
    if p.returncode != 0:
        shutil.rmtree(tmp, ignore_errors=True)
        raise Inconclusive("corpus generator failed: %s" % p.stderr[-800:])
    # only touch the file when the content changed, so that cargo does not rebuild needlessly
    for f in ("corpus.rs", "fp_corpus.rs", "corpus.json"):
        new = open(os.path.join(tmp, f)).read()
        dst = os.path.join(d, f)
        if not os.path.exists(dst) or open(dst).read() != new:
            with open(dst, "w") as fh:
                fh.write(new)
    shutil.rmtree(tmp, ignore_errors=True)
    return d


def build_rtc(o, features=(), profile=None):
    d = gen_corpus(o.seed, o.tier)
    o.extra["corpus"] = json.load(open(os.path.join(d, "corpus.json")))
    tag = "rtc-%d-%s%s" % (o.seed, o.tier, ("-" + "+".join(features)) if features else "")
    return build_rt(features, extra_env={"VERIF_GEN": d}, tag=tag, package="rtc", profile=profile)


def nodebug_pass(o, exe, sub, args, timeout, crash=None):
    """The same workload (smaller) in a build without debug assertions / overflow checks: behaviour must not hide in debug_assert!."""
    d0 = o.distinct
    rep = rt_pass(o, exe, sub, args, timeout, crash_is_violation=crash, prefix="nodebug_", name="%s-%s-nodebug" % (o.prop, sub))
    o.distinct = d0  # the same cases again in another build: executions, not new distinct cases
    if rep is not None and rep.get("evaluations", 0) <= 0:
        o.inconclusive.append("the nodebug pass executed nothing")
    o.extra["nodebug"] = "workload repeated in profile `nodebug` (opt-level 1, debug-assertions off, overflow-checks off); counters under nodebug_*"


ASAN_FLAGS = "-Zsanitizer=address -Cforce-frame-pointers=yes " + CFG_FLAGS


def build_asan(features=()):
    """rt instrumented with AddressSanitizer (nightly). Own target dir; host proc-macros stay uninstrumented via --target."""
    return build_rt(features, extra_env={"RUSTFLAGS": ASAN_FLAGS}, tag="rt-asan", toolchain="nightly",
                    extra_args=["--target", "x86_64-unknown-linux-gnu"], target_dir=os.path.join(TARGET, "asan"))


def asan_pass(o, exe, sub, args, timeout, key):
    """Run a workload slice under ASan. A report aborts the child (halt_on_error) and is a violation of `key`."""
    os.makedirs(os.path.join(WORK, "out"), exist_ok=True)
    out = os.path.join(WORK, "out", "%s-asan-%d.json" % (o.prop, os.getpid()))
    env = base_env()
    env["ASAN_OPTIONS"] = "halt_on_error=1:abort_on_error=1:detect_leaks=0:allocator_may_return_null=1:symbolize=1"
    cmd = [exe, sub, "--prop", o.prop, "--seed", str(o.seed), "--tier", o.tier, "--threads", str(NCPU)] + [str(a) for a in args] + ["--out", out]
    try:
        p = subprocess.run(cmd, env=env, stdout=subprocess.PIPE, stderr=subprocess.PIPE, text=True, timeout=timeout, errors="replace")
    except subprocess.TimeoutExpired:
        o.inconclusive.append("watchdog: ASan slice did not finish within %ds" % timeout)
        return
    if "ERROR: AddressSanitizer" in p.stderr:
        first = p.stderr[p.stderr.index("ERROR: AddressSanitizer"):][:3000]
        o.violations.append({"key": key, "msg": "AddressSanitizer report while running the `%s` workload:\n%s" % (sub, first), "case": {"args": cmd[1:], "seed": o.seed}})
        o.violation_count += 1
        return
    if p.returncode != 0 or not os.path.exists(out):
        o.inconclusive.append("ASan slice failed (status %s) without a sanitizer report: %s" % (p.returncode, p.stderr[-500:]))
        return
    rep = json.load(open(out))
    os.remove(out)
    o.add_report(rep, "asan_")
    o.extra["asan"] = "no AddressSanitizer report on %d evaluations" % rep.get("evaluations", 0)


def miri_pass(o, sub, args, shards, secs, key, features=(), target=None, prefix="miri_"):
    """Run `shards` single-threaded Miri processes of the monitored binary in parallel, each under a time budget.
    With `target` the program is interpreted for another platform (e.g. a big-endian one): Miri needs no emulator for that."""
    env = base_env()
    env["CARGO_TARGET_DIR"] = os.path.join(TARGET, "miri")
    env["MIRIFLAGS"] = "-Zmiri-disable-isolation"
    os.makedirs(os.path.join(WORK, "out"), exist_ok=True)
    base = ["cargo", "+nightly", "miri", "run", "--offline", "-q", "-p", "rt"]
    if target:
        base += ["--target", target]
    if features:
        base += ["--features", ",".join(features)]
    # first shard alone builds; the others reuse the artefacts
    procs = []
    with Lock("miri"):
        pre = subprocess.run(base + ["--", "noop"], cwd=HARNESS, env=env, stdout=subprocess.PIPE, stderr=subprocess.PIPE, text=True)
        if "unknown subcommand" not in pre.stderr:
            o.inconclusive.append("Miri build of the harness failed: %s" % pre.stderr[-600:])
            return
        for k in range(shards):
            out = os.path.join(WORK, "out", "%s-miri-%d-%d.json" % (o.prop, os.getpid(), k))
            cmd = base + ["--", sub, "--prop", o.prop, "--seed", str(o.seed), "--tier", o.tier, "--threads", "1", "--first", str(1_000_000 + k * 10_000),
                          "--max-secs", str(secs), "--hashes", "1"] + [str(a) for a in args] + ["--out", out]
            procs.append((k, out, subprocess.Popen(cmd, cwd=HARNESS, env=env, stdout=subprocess.PIPE, stderr=subprocess.PIPE, text=True, errors="replace")))
        total = 0
        hashes = set()
        for k, out, p in procs:
            try:
                so, se = p.communicate(timeout=secs * 3 + 600)
            except subprocess.TimeoutExpired:
                p.kill()
                o.inconclusive.append("watchdog: Miri shard %d did not finish" % k)
                continue
            if "Undefined Behavior" in se or "error: unsupported operation" in se and False:
                first = se[se.index("Undefined Behavior") - 10:][:3000]
                o.violations.append({"key": key, "msg": "Miri reported undefined behaviour while running the `%s` workload:\n%s" % (sub, first), "case": {"shard": k, "seed": o.seed}})
                o.violation_count += 1
                continue
            if p.returncode != 0 or not os.path.exists(out):
                o.inconclusive.append("Miri shard %d failed (status %s): %s" % (k, p.returncode, se[-400:]))
                continue
            rep = json.load(open(out))
            os.remove(out)
            hs = rep.pop("distinct_hashes", [])
            hashes.update(hs)
            rep["distinct_nontrivial"] = 0
            o.add_report(rep, prefix)
            total += rep.get("evaluations", 0)
        o.distinct += len(hashes)
        o.extra[prefix.rstrip("_")] = "no undefined behaviour reported on %d evaluations in %d single-threaded processes (Stacked Borrows, isolation disabled%s)" % (
            total, shards, (", interpreted for target %s" % target) if target else "")


def p_decode(o):
    exe = build_rt()
    o.replay_base = {"sub": "decode"}
    crash = ("C14/crash", "decoding aborted or crashed the process")
    rt_pass(o, exe, "decode", ["--cases", sizes(o.tier, 8_000, 40_000), "--max-secs", sizes(o.tier, 90, 600)], timeout=sizes(o.tier, 400, 1800), crash_is_violation=crash)
    nodebug_pass(o, build_rt(profile="nodebug"), "decode", ["--cases", sizes(o.tier, 1_000, 8_000), "--first", 900_000, "--max-secs", sizes(o.tier, 30, 120)], timeout=sizes(o.tier, 300, 900), crash=crash)
    o.extra["exhaustive"] = True
    o.extra["exhaustive_scope"] = ("for every base input counted in bases_with_all_truncations_and_bitflips, ALL truncations and ALL single-bit flips were executed "
                                   "(also every byte insert/delete/duplicate position and every length/id/option/tag slot x 17 hostile encodings); other fault classes are sampled")
    o.rule = ("base inputs = reference encodings / JSON of small RegGen registries; faults: all truncations, all single-bit flips, insert/delete/duplicate at every position, "
              "every compact length / id / option / tag slot overwritten with hostile encodings, splices, random bytes, sequences of 2-4 faults, lying nested lengths, many minimal elements; "
              "JSON: truncation at every byte, byte faults, structural faults (key delete/unknown key/type swap/out-of-range numbers/unknown tags), deep nesting, megabyte strings. "
              "Every input is non-trivial; distinct = distinct input byte strings.")
    o.need(["scale_accepted", "scale_rejected", "json_accepted", "json_rejected", "resolve_out_of_range_none", "scale_class_truncation", "scale_class_bitflip",
            "scale_class_slot-veclen", "scale_class_slot-strlen", "scale_class_slot-id", "scale_class_slot-option", "scale_class_slot-deftag", "scale_class_lying-lengths",
            "scale_class_fault-sequence", "json_class_truncation", "json_class_fixed-hostile"])
    o.extra["memory_bound"] = "peak live heap during one decode <= 128*len + 262144 bytes (counting allocator, sizes only)"
    o.assumptions = ["memory proportionality is judged against the fixed bound 128*len + 256 KiB (calibrated: worst observed slope 24 bytes per input byte, 16 KiB per open vector)",
                     "a panic is observed through catch_unwind, an abort/signal through the child-process boundary",
                     "the set of rejected inputs is not pinned beyond canonicality of the accepted ones"]
    if o.tier == "thorough":
        try:
            aexe = build_asan()
            asan_pass(o, aexe, "decode", ["--cases", 20_000, "--first", 500_000, "--max-secs", 240], timeout=1500, key="C14/asan-report")
        except Inconclusive as e:
            o.inconclusive.append("ASan build unavailable: %s" % str(e)[-400:])
        miri_pass(o, "decode", ["--cases", 10_000, "--light", 6], shards=NCPU, secs=300, key="C14/miri-ub")


HIST_RULE = ("registration histories over the compiled-in type corpus (core corpus: every built-in impl family, alias forms, hand-written cyclic / parameter-only / diamond types, "
             "generated derived definitions; plus seeded type expressions): 1-24 ops of register_type / register_types / map_into_portable over a small working set with heavy repetition, "
             "aliases first or target first; the first |corpus| cases walk every entry (with its aliases) deterministically. Non-trivial: final registry has >=2 entries; distinct = distinct op sequences.")


def p_hist(o):
    exe = build_rtc(o)
    o.replay_base = {"sub": "hist", "bin": "rtc"}
    crash = None
    if o.prop == "C02":
        crash = ("C02/registration-does-not-terminate", "registering a (possibly cyclic) type crashed the process (stack overflow / abort)")
    rt_pass(o, exe, "hist", ["--cases", sizes(o.tier, 30_000, 6_000_000), "--max-secs", sizes(o.tier, 60, 480)], timeout=sizes(o.tier, 400, 1800), crash_is_violation=crash)
    nodebug_pass(o, build_rtc(o, profile="nodebug"), "hist", ["--cases", sizes(o.tier, 6_000, 400_000), "--max-secs", sizes(o.tier, 30, 120)], timeout=sizes(o.tier, 300, 900), crash=crash)
    o.rule = HIST_RULE
    floor = ["cyclic_type_registered", "type_first_met_as_type_parameter", "op_register_type", "op_register_types", "op_map_into_portable_type", "op_map_into_portable_params"] + \
            ["def_" + k for k in ("composite", "variant", "sequence", "array", "tuple", "primitive", "compact", "bitsequence")]
    if o.prop == "C01":
        floor += ["producer_from_registry", "producer_decode", "producer_json", "producer_retain", "registries_checked_in_place", "prefix_replays_checked"]
        # the fourth producer: the runtime builder
        exe2 = build_rt()
        rt_pass(o, exe2, "table", ["--cases", sizes(o.tier, 100_000, 3_000_000), "--max-secs", sizes(o.tier, 30, 200)], timeout=sizes(o.tier, 300, 1200), prefix="builder_")
        rt_pass(o, exe2, "retain", ["--cases", sizes(o.tier, 100_000, 3_000_000), "--max-secs", sizes(o.tier, 30, 200)], timeout=sizes(o.tier, 300, 1200), prefix="retain_",
                crash_is_violation=("C01/retain-crash", "retain crashed the process on a well-formed registry"))
        if o.counter("retained_registries_checked", "retain_") <= 0:
            o.inconclusive.append("coverage floor missed: no registry produced by retain on RegGen input was checked")
        if o.counter("builder_registries_checked", "builder_") <= 0:
            o.inconclusive.append("coverage floor missed: no registry produced by the runtime builder was checked")
    if o.prop == "C02":
        floor += ["roots_checked", "mapped_types_checked", "cycles_cut"]
    if o.prop == "C05":
        floor += ["reregistrations_checked", "identity_pairs_checked", "alias_pairs_sharing_id", "entry_count_checks", "instrumented_evaluations_seen"]
    if o.prop == "C11":
        floor += ["prefix_checks", "returned_ids_rechecked", "replays_compared", "permutations_compared"]
    o.need(floor)
    o.assumptions = ["TypeId::of::<<T as TypeInfo>::Identity>() computed in the harness is the declared identity", "canonical identities are computed by the generator from the alias rules of C05 (never from MetaType)",
                     "hook events (when available) only add visibility; boundary monitors decide"]
    if o.prop == "C11":
        # cross-process determinism: two separate processes print digests of the same histories
        outs = []
        for k in range(2):
            rep, rc, err = run_rt(exe, ["digest", "--prop", "C11", "--seed", o.seed, "--tier", o.tier, "--cases", 400], 600, "C11-digest-%d" % k)
            if rep is None:
                o.inconclusive.append("digest process %d failed: %s" % (k, err[-300:]))
                return
            outs.append(rep)
        if outs[0]["sets"].get("digest") != outs[1]["sets"].get("digest"):
            o.violations.append({"key": "C11/cross-process-differs", "msg": "two processes replaying the same 400 histories produced different registry bytes (digest %s vs %s)" % (outs[0]["sets"].get("digest"), outs[1]["sets"].get("digest")), "case": {"seed": o.seed}})
            o.violation_count += 1
        o.extra["cross_process_digest"] = outs[0]["sets"].get("digest")


def p_values(o):
    exe = build_rtc(o)
    o.replay_base = {"sub": "values", "bin": "rtc"}
    rt_pass(o, exe, "values", ["--rounds", sizes(o.tier, 6, 300), "--values", sizes(o.tier, 150, 600), "--max-secs", sizes(o.tier, 60, 420)], timeout=sizes(o.tier, 400, 1800))
    nodebug_pass(o, build_rtc(o, profile="nodebug"), "values", ["--rounds", sizes(o.tier, 2, 20), "--values", sizes(o.tier, 60, 200), "--max-secs", sizes(o.tier, 30, 120)], timeout=sizes(o.tier, 300, 900))
    if o.prop == "C04":
        o.rule = ("every built-in type expression of the corpus (core: each impl family of C04 incl. all NonZero*, all 8 BitVec store/order pairs, Compact<u8..u128,()>, Cow of sized/unsized targets, "
                  "tuples 1..20, arrays 0..1000; seeded nesting to depth 4) x boundary-heavy sampled values; each value is SCALE-encoded by parity-scale-codec and decoded by a schema-directed decoder "
                  "that only knows the registry; result must consume all bytes and equal the documented model. Types without an encoding (char, 19/20-tuples, ...) are checked for shape only. "
                  "Non-trivial: non-empty encoding; distinct = distinct (type, bytes).")
        o.need(["types_exercised", "shape_only_types", "tuple_shapes_checked", "bytes_decoded"])
    else:
        o.rule = ("every generated definition deriving TypeInfo and Encode (unit/tuple/named structs and enums; generics, recursion, PhantomData, lifetimes, const parameters; "
                  "codec attributes skip, compact, index, encoded_as, explicit discriminants, rename) x sampled values of each instantiation; decoded from the registry alone and compared with the declaration model "
                  "(variant identifier, field identifiers, order, leaves); enum metadata index must be the first byte. Non-trivial: non-empty encoding; distinct = distinct (type, bytes).")
        o.need(["types_exercised", "variant_index_is_first_byte", "tag_compact", "tag_skip", "tag_variant_skip", "tag_index", "tag_encoded_as", "tag_phantom", "tag_recursive", "tag_generic", "tag_rename", "tag_enum"])
    o.assumptions = ["schema-directed decoder (harness/vcommon/src/valdec.rs) implements the SCALE rules from the property text", "Model impls are written from the documented shapes (std) or emitted by the generator from the declaration (derived)",
                     "parity-scale-codec's derived Encode is the ground truth for bytes"]


def p_pairs(o):
    exe = build_rtc(o)
    o.replay_base = {"sub": "pairs", "bin": "rtc"}
    rt_pass(o, exe, "pairs", [], timeout=sizes(o.tier, 400, 1800))
    # optimised build: functions with identical bodies may be merged, debug assertions are off
    nodebug_pass(o, build_rtc(o, profile="nodebug"), "pairs", [], timeout=sizes(o.tier, 400, 1800))
    # with the docs feature definitions carry more (doc strings): coherence within an identity class must hold there too
    rt_pass(o, build_rtc(o, ("docs",)), "pairs", [], timeout=sizes(o.tier, 400, 1800), prefix="docs_on_", name="C16-pairs-docs")
    o.need(["same_identity_pairs", "alias_order_pairs_checked"], "docs_on_")
    o.rule = ("all ordered pairs of corpus entries (built-in constructors at nesting <=4, wrappers of wrappers, aliases, hand-written and derived types): ==, !=, cmp both ways, partial_cmp, hash; "
              "declared identity taken from the trait (TypeId::of::<<T as TypeInfo>::Identity>()), not from MetaType; coherence of definitions and of registration order within each identity class; "
              "transitivity over all triples of a 150-entry subset, over 2M random triples of the whole corpus, and as absence of inversions at any distance after sorting the corpus; "
              "BTreeSet / HashSet of the corpus keep one member per identity. Three builds: dev, optimised without debug assertions, dev with the docs feature. "
              "Non-trivial: a != b as corpus entries; distinct = distinct ordered pairs.")
    o.need(["same_identity_pairs", "different_identity_pairs", "alias_order_pairs_checked", "transitivity_triples", "identity_classes_with_aliases", "sorted_pairs_checked", "collections_checked"])
    o.assumptions = ["std TypeId equality is type identity", "DefaultHasher is used as the witness for Hash consistency"]


def p_mirror(o):
    o.replay_base = {"sub": "mirror", "bin": "rtc"}
    for feats in ((), ("docs",)):
        exe = build_rtc(o, feats)
        rep = rt_pass(o, exe, "mirror", [], timeout=600, prefix="docs_on_" if feats else "docs_off_", name="C09-mirror-%s" % ("on" if feats else "off"))
        if rep is not None and rep.get("docs_feature") != bool(feats):
            o.inconclusive.append("build with features %s reports docs_feature=%s" % (feats, rep.get("docs_feature")))
    o.rule = ("every instantiation of every generated definition (nested modules incl. raw names; generics with bounds/defaults/const/lifetime parameters; replace_segment, skip_type_params, rename, "
              "compact, skip, PhantomData members; docs in /// and #[doc] form with 0/1/2 leading spaces and hostile content; all capture_docs values) under two builds (docs feature off and on); "
              "type_info() is compared with the declaration model emitted by the generator from the source it wrote. distinct = distinct (instantiation, build).")
    for pre in ("docs_on_", "docs_off_"):
        o.need(["members_compared", "variants_compared", "capture_default", "capture_always", "capture_never"], pre)
    o.need(["doc_lines_compared"], "docs_on_")
    o.assumptions = ["declaration model = the generator's own AST, by the rules in the statement of C09", "chained replace_segment rules, block doc comments and macro-generated types are outside the grammar"]


def p_builders(o):
    o.replay_base = {"sub": "builders"}
    for feats in ((), ("docs",)):
        exe = build_rt(feats)
        pre = "docs_on_" if feats else "docs_off_"
        rep = rt_pass(o, exe, "builders", ["--cases", sizes(o.tier, 200_000, 20_000_000), "--max-secs", sizes(o.tier, 40, 240)], timeout=sizes(o.tier, 300, 1200), prefix=pre, name="C17-builders-%s" % ("on" if feats else "off"))
        if rep is not None and rep.get("docs_feature") != bool(feats):
            o.inconclusive.append("build with features %s reports docs_feature=%s" % (feats, rep.get("docs_feature")))
        o.need(["portable_scripts", "meta_scripts", "phantom_members_supplied", "tuple_ctor_checks", "portable_field_builders"], pre)
    exe = build_rtc(o)
    rt_pass(o, exe, "scan", [], timeout=600, prefix="scan_", name="C17-scan")
    o.need(["definitions_scanned", "members_scanned"], "scan_")
    o.rule = ("(a) random builder scripts (TypeBuilder / Fields / FieldBuilder / Variants / VariantBuilder and the plain constructors; setters in varying legal orders, each at most once) in portable form "
              "(runtime strings and ids) and compile-time form (leaked strings, member types from a fixed set that includes PhantomData instantiations and a compact member), under two builds (docs off/on); "
              "the built Type is compared element by element with the argument lists (PhantomData members removed, docs kept per setter kind and feature). "
              "(b) every definition reachable from the type corpus is scanned for a PhantomData listed as field / tuple element. distinct = distinct (script seed, build).")
    o.assumptions = ["the argument lists themselves are the model", "repeated setter calls are not specified and not exercised", "members declared as a wrapper of PhantomData (Box<PhantomData<T>>) are asserted neither way"]


# ---------------------------------------------------------------------------------------------
# programs through rustc (C13, C20): the event log is the compiler's JSON diagnostics per program

def gen_progs(seed, tier):
    d = os.path.join(WORK, "progs", "%d-%s-%d" % (seed, tier, os.getpid()))
    shutil.rmtree(d, ignore_errors=True)
    os.makedirs(d, exist_ok=True)
    p = subprocess.run(["/usr/bin/python3", os.path.join(VERIF, "gen", "progs.py"), str(seed), tier, d], stdout=subprocess.PIPE, stderr=subprocess.PIPE, text=True,
                       env={"PYTHONDONTWRITEBYTECODE": "1", "PATH": "/usr/bin:/bin"})
    if p.returncode != 0:
        raise Inconclusive("program generator failed: %s" % p.stderr[-800:])
    return d


def build_anchor():
    """cargo-build the dependency anchor crate; returns dict with rlib paths and the deps dir."""
    env = base_env()
    with Lock():
        ensure_fresh(env)
        p = subprocess.run(["cargo", "build", "--offline", "-p", "progs", "--message-format=json"], cwd=HARNESS, env=env, stdout=subprocess.PIPE, stderr=subprocess.PIPE, text=True)
    if p.returncode != 0:
        lines = p.stderr.splitlines()
        errs = [i for i, l in enumerate(lines) if l.startswith("error")]
        raise Inconclusive("/repo does not build for the program checks:\n%s" % ("\n".join(lines[errs[0]:errs[0] + 40]) if errs else p.stderr[-1500:]))
    libs = {}
    for line in p.stdout.splitlines():
        try:
            m = json.loads(line)
        except Exception:
            continue
        if m.get("reason") == "compiler-artifact":
            n = m["target"]["name"]
            for f in m.get("filenames", []):
                if f.endswith(".rlib"):
                    libs[n] = f
    if "scale_info" not in libs or "parity_scale_codec" not in libs:
        raise Inconclusive("could not locate the rlibs of scale-info / parity-scale-codec: %s" % sorted(libs))
    return {"scale_info": libs["scale_info"], "scale": libs["parity_scale_codec"], "deps": os.path.dirname(libs["scale_info"])}


def rustc_check(anchor, src, outdir, crate_type="lib", emit="metadata", crate_name=None, timeout=180):
    """Compile one program on its own. Returns (ok, diagnostics list)."""
    env = base_env()
    env["CARGO_MANIFEST_DIR"] = os.path.join(HARNESS, "progs")
    env["CARGO_PKG_NAME"] = "progs"
    env.pop("RUSTFLAGS", None)
    name = crate_name or os.path.basename(src)[:-3]
    cmd = ["rustc", "--edition", "2021", "--crate-type", crate_type, "--crate-name", name, "--error-format=json", "-L", "dependency=" + anchor["deps"],
           "--extern", "scale_info=" + anchor["scale_info"], "--extern", "scale=" + anchor["scale"], "--out-dir", outdir, "--cap-lints", "warn", src]
    if emit == "metadata":
        cmd += ["--emit=metadata"]
    try:
        p = subprocess.run(cmd, env=env, stdout=subprocess.PIPE, stderr=subprocess.PIPE, text=True, timeout=timeout)
    except subprocess.TimeoutExpired:
        return None, [{"level": "error", "message": "rustc timed out", "spans": []}]
    diags = []
    for line in p.stderr.splitlines():
        try:
            dct = json.loads(line)
        except Exception:
            continue
        if dct.get("level") in ("error", "error: internal compiler error"):
            diags.append({"level": "error", "message": dct.get("message", ""), "code": (dct.get("code") or {}).get("code"),
                          "lines": [sp.get("line_start") for sp in dct.get("spans", []) if sp.get("is_primary")], "rendered": (dct.get("rendered") or "")[:1200]})
    return p.returncode == 0, diags


PROBE = """use scale_info::TypeInfo;
#[derive(TypeInfo)]
pub struct Probe<T> { pub a: T, pub b: Vec<u8> }
pub fn f() -> scale_info::Type { <Probe<u8> as TypeInfo>::type_info() }
"""


def run_pool(jobs, fn):
    import concurrent.futures as cf
    with cf.ThreadPoolExecutor(max_workers=NCPU) as ex:
        return list(ex.map(fn, jobs))


def p_derive_accepts(o):
    anchor = build_anchor()
    d = gen_progs(o.seed, o.tier)
    try:
        out = os.path.join(d, "out")
        os.makedirs(out, exist_ok=True)
        with open(os.path.join(d, "probe.rs"), "w") as fh:
            fh.write(PROBE)
        ok, diags = rustc_check(anchor, os.path.join(d, "probe.rs"), out)
        if not ok:
            o.inconclusive.append("probe program does not compile against /repo: %s" % (diags[0]["rendered"] if diags else "?"))
            return
        plog = json.load(open(os.path.join(d, "pos.json")))
        res = run_pool(plog, lambda p: rustc_check(anchor, os.path.join(d, "pos", p["name"] + ".rs"), out))
        compiled = []
        tags_seen = {}
        for p, (ok, diags) in zip(plog, res):
            o.evaluations += 1
            for t in p["tags"]:
                tags_seen[t] = tags_seen.get(t, 0) + 1
            src = open(os.path.join(d, "pos", p["name"] + ".rs")).read()
            body = src[src.index("// BEGIN-DEF"):src.index("// END-DEF")]
            if ok is None:
                o.inconclusive.append("rustc timed out on %s" % p["name"])
            elif ok:
                compiled.append(p)
            else:
                if "codec_skip_variant" in p["tags"]:
                    key = "C13/skipped-variant-member-bound"
                elif "codec_skip_generic" in p["tags"]:
                    key = "C13/skipped-member-bound"
                elif "compact_assoc" in p["tags"]:
                    key = "C13/compact-assoc-bound"
                else:
                    key = "C13/does-not-compile"
                o.violations.append({"key": key, "msg": "a supported definition (tags %s) does not compile or is not usable for its instantiations %s:\n%s\n%s" % (
                    ",".join(p["tags"]), [i["inst"] for i in p["insts"]], body, diags[0]["rendered"] if diags else ""), "case": {"program": p["name"], "tags": p["tags"], "source": src, "diagnostics": diags[:3]}})
                o.violation_count += 1
            if len(o.samples) < 4:
                o.samples.append({"program": p["name"], "tags": p["tags"], "definition": body.strip()[:500], "instantiations": [i["inst"] for i in p["insts"]], "compiled": bool(ok)})
        # run the accepted programs: every instantiation must report the declared Some/None pattern
        main = "#![allow(dead_code)]\n"
        for p in compiled:
            main += '#[path = "%s"]\nmod %s;\n' % (os.path.join(d, "pos", p["name"] + ".rs"), p["name"])
        main += "fn main() {\n"
        for p in compiled:
            main += '    for (inst, ps) in %s::observe() { println!("%s\\t{}\\t{}", inst, ps.iter().map(|(n, s)| format!("{}={}", n, s)).collect::<Vec<_>>().join(",")); }\n' % (p["name"], p["name"])
        main += "}\n"
        with open(os.path.join(d, "all_main.rs"), "w") as fh:
            fh.write(main)
        ok, diags = rustc_check(anchor, os.path.join(d, "all_main.rs"), out, crate_type="bin", emit="link", crate_name="allpos", timeout=900)
        if not ok:
            o.inconclusive.append("accepted programs do not link into one binary: %s" % (diags[0]["rendered"] if diags else "?"))
            return
        r = subprocess.run([os.path.join(out, "allpos")], stdout=subprocess.PIPE, stderr=subprocess.PIPE, text=True, timeout=300)
        if r.returncode != 0:
            o.violations.append({"key": "C13/type_info-fails-at-run-time", "msg": "type_info() of an accepted instantiation failed at run time: %s" % r.stderr[-1500:], "case": {"stderr": r.stderr[-3000:]}})
            o.violation_count += 1
            return
        got = {}
        for line in r.stdout.splitlines():
            name, inst, ps = line.split("\t")
            got[(name, inst)] = ps
        n_inst = 0
        distinct = set()
        for p in compiled:
            for i in p["insts"]:
                n_inst += 1
                want = ",".join("%s=%s" % (n, "true" if sflag else "false") for n, sflag in i["params"])
                distinct.add((p["name"], i["inst"]))
                if got.get((p["name"], i["inst"])) != want:
                    o.violations.append({"key": "C13/param-pattern", "msg": "%s %s reports type parameters [%s], declared [%s]" % (p["name"], i["inst"], got.get((p["name"], i["inst"])), want), "case": {"program": p["name"], "inst": i["inst"]}})
                    o.violation_count += 1
        o.distinct = len(distinct)
        o.extra["counters"] = {"programs": len(plog), "programs_accepted": len(compiled), "instantiations_run": n_inst}
        o.extra["tags_seen"] = tags_seen
        need = ["direct", "containers", "phantom", "skip_type_params", "assoc", "recursive", "lifetime", "const_param", "default", "where_clause", "bounds_attr", "codec_skip", "compact", "seeded"]
        for t in need:
            if t not in tags_seen:
                o.inconclusive.append("coverage floor missed: no program with tag %s" % t)
    finally:
        shutil.rmtree(d, ignore_errors=True)
    o.rule = ("generated positive programs: one generic definition each (parameters used directly, in built-in containers, in PhantomData, through associated types, in self-referential positions; lifetimes, const parameters, "
              "defaults, where clauses, bounds(..), skip_type_params, #[codec(skip)] / #[codec(compact)] members; each as named struct, tuple struct and two enum shapes; plus seeded combinations) with instantiations that use "
              "a type WITHOUT TypeInfo for every skipped parameter and inside every skipped member. Each program is compiled on its own (rustc --emit=metadata against the rlib built from /repo), accepted ones are linked and run: "
              "type_info() must report the declared Some/None parameter pattern. distinct = distinct (program, instantiation) run.")
    o.assumptions = ["the observed system is rustc running the proc-macro; the monitor is an offline oracle over its diagnostics and over the run of the accepted programs",
                     "explicit bounds must carry 'a: 'static themselves when a lifetime parameter is present"]


def p_rejects(o):
    anchor = build_anchor()
    d = gen_progs(o.seed, o.tier)
    try:
        out = os.path.join(d, "out")
        os.makedirs(out, exist_ok=True)
        with open(os.path.join(d, "probe.rs"), "w") as fh:
            fh.write(PROBE)
        ok, diags = rustc_check(anchor, os.path.join(d, "probe.rs"), out)
        if not ok:
            o.inconclusive.append("probe program does not compile against /repo: %s" % (diags[0]["rendered"] if diags else "?"))
            return
        nlog = json.load(open(os.path.join(d, "neg.json")))
        jobs = [(n, w) for n in nlog for w in ("twin", "neg")]
        res = run_pool(jobs, lambda j: rustc_check(anchor, os.path.join(d, "neg", "%s_%s.rs" % (j[0]["name"], j[1])), out, crate_type="bin", crate_name="%s_%s" % (j[0]["name"], j[1])))
        byname = {}
        for (n, w), rr in zip(jobs, res):
            byname.setdefault(n["name"], {})[w] = rr
        groups = {}
        rejected = 0
        for n in nlog:
            o.evaluations += 1
            tw_ok, tw_d = byname[n["name"]]["twin"]
            ng_ok, ng_d = byname[n["name"]]["neg"]
            src = open(os.path.join(d, "neg", n["name"] + "_neg.rs")).read()
            region = src[src.index("// BEGIN-NEG"):src.index("// END-NEG")]
            lo = src[:src.index("// BEGIN-NEG")].count("\n") + 1
            hi = src[:src.index("// END-NEG")].count("\n") + 1
            groups[n["group"]] = groups.get(n["group"], 0) + 1
            if len(o.samples) < 5:
                o.samples.append({"program": n["name"], "group": n["group"], "ill_formed": region.strip()[:400], "rejected": ng_ok is False})
            if not tw_ok and not ng_ok:
                # (a negative that compiles is a violation whatever its twin does; see below)
                o.inconclusive.append("positive twin of %s (%s) does not compile: %s" % (n["name"], n["group"], (tw_d[0]["rendered"] if tw_d else "?")[:400]))
                continue
            if ng_ok is None:
                o.inconclusive.append("rustc timed out on %s" % n["name"])
                continue
            if ng_ok:
                # it compiled: run it to record what the ill-formed construction produces
                okb, _ = rustc_check(anchor, os.path.join(d, "neg", n["name"] + "_neg.rs"), out, crate_type="bin", emit="link", crate_name=n["name"] + "_run")
                outcome = "(not run)"
                if okb:
                    r = subprocess.run([os.path.join(out, n["name"] + "_run")], stdout=subprocess.PIPE, stderr=subprocess.PIPE, text=True, timeout=60)
                    outcome = ("exit %s; stdout: %s; stderr: %s" % (r.returncode, r.stdout[-600:], r.stderr[-400:]))
                key = "C20/%s%s" % (n["group"], "/via-default" if "via-default" in n["tags"] or "::default()" in region and "Default" in region and n["group"].startswith("builder") and "via-default" in n["tags"] else "")
                if n["group"].startswith("builder") and ("Assigned>::default()" in region or "as Default>::default()" in region):
                    key = "C20/%s/via-default" % n["group"]
                o.violations.append({"key": key, "msg": "an ill-formed program compiles (%s):\n%s\nwhen run: %s" % (n["group"], region.strip(), outcome), "case": {"program": n["name"], "tags": n["tags"], "source": src, "run": outcome}})
                o.violation_count += 1
                continue
            # rejected: the error must be about the ill-formed construct
            inside = [dg for dg in ng_d if any(l is not None and lo <= l <= hi for l in dg["lines"])]
            if n["group"].startswith("derive/") and not any(dg.get("code") is None for dg in inside):
                # only rustc errors inside the emitted impl: the derive did emit an implementation instead of reporting the error itself
                o.violations.append({"key": "C20/%s/impl-emitted" % n["group"], "msg": "the derive emits an implementation for an ill-formed input (%s) instead of reporting a compile error; rustc then rejects the generated code:\n%s\n%s" % (
                    n["group"], region.strip(), (ng_d[0]["rendered"] if ng_d else "")[:600]), "case": {"program": n["name"], "tags": n["tags"], "source": src}})
                o.violation_count += 1
                continue
            if not inside:
                o.inconclusive.append("%s is rejected, but no error points into the ill-formed construct: %s" % (n["name"], (ng_d[0]["rendered"] if ng_d else "?")[:300]))
                continue
            rejected += 1
        o.distinct = rejected
        o.extra["counters"] = {"negative_programs": len(nlog), "rejected_with_error_on_construct": rejected, "twins_compiled": sum(1 for n in nlog if byname[n["name"]]["twin"][0])}
        o.extra["groups"] = groups
        o.extra["exhaustive"] = True
        o.extra["exhaustive_scope"] = "the enumerated negative grammar (every public way to obtain each builder typestate x every finisher with one part missing or of the wrong kind; container-level derive attribute errors) is compiled completely"
        for g in ["builder/no-path", "builder/variant-without-index", "builder/field-without-type", "builder/named-among-unnamed", "builder/unnamed-among-named", "derive/union", "derive/unknown-attribute",
                  "derive/duplicate-attribute", "derive/invalid-capture-docs", "derive/bounds-missing-param"]:
            if g not in groups:
                o.inconclusive.append("coverage floor missed: no negative program of group %s" % g)
    finally:
        shutil.rmtree(d, ignore_errors=True)
    # run-time half: compiling builder programs with repeated fields(..) calls never yield a mixed variant
    try:
        exe = build_rt()
        rt_pass(o, exe, "builders", ["--cases", sizes(o.tier, 50_000, 2_000_000), "--max-secs", 60], timeout=600, prefix="runtime_", name="C20-builders")
        if o.counter("repeated_fields_calls", "runtime_") <= 0:
            o.inconclusive.append("coverage floor missed: the run-time builder scripts did not run")
    except Inconclusive as e:
        o.inconclusive.append(str(e)[:300])
    o.rule = ("negative programs, one ill-formed construct each, compiled on their own (rustc --emit=metadata), each with a positive twin that differs only in that construct and must compile: builders without path / index / type, "
              "named among unnamed and unnamed among named in compile-time and portable form, every public way to obtain a builder typestate including Default::default(); derive on unions, unknown attributes, repeated "
              "bounds / skip_type_params / capture_docs / crate, invalid capture_docs values, bounds(..) leaving a parameter unbound. Verdict: negative must be rejected with an error whose primary span lies in the construct. "
              "distinct = negatives rejected with a located error.")
    o.assumptions = ["for the typestate half no scale-info code executes: the observed system is rustc type-checking the crate's API", "error message texts are not pinned", "unknown attributes on fields/variants are outside the statement"]


FEATS = ["std", "serde", "decode", "bit-vec", "schema", "docs"]


def feature_sets(tier):
    if tier == "quick":
        return [(), ("std",), ("serde",), ("serde", "decode"), ("docs",), ("bit-vec",), ("schema",), tuple(FEATS)]
    out, seen = [], set()
    for mask in range(1 << len(FEATS)):
        fs = tuple(f for i, f in enumerate(FEATS) if mask >> i & 1)
        eff = frozenset(fs) | ({"std"} if "schema" in fs else set())
        if eff in seen:
            continue
        seen.add(eff)
        out.append(fs)
    return out


def p_features(o):
    d = gen_corpus(o.seed, o.tier)
    o.extra["corpus"] = json.load(open(os.path.join(d, "corpus.json")))
    sets = feature_sets(o.tier)
    lanes = 4 if o.tier == "thorough" else 2
    results = {}

    def lane(k):
        env = base_env()
        env["VERIF_GEN"] = d
        env["CARGO_TARGET_DIR"] = os.path.join(TARGET, "fp%d" % k)
        for fs in sets[k::lanes]:
            cmd = ["cargo", "build", "--offline", "-q", "-p", "fp"] + (["--features", ",".join(fs)] if fs else [])
            p = subprocess.run(cmd, cwd=HARNESS, env=env, stdout=subprocess.PIPE, stderr=subprocess.PIPE, text=True)
            if p.returncode != 0:
                lines = p.stderr.splitlines()
                errs = [i for i, l in enumerate(lines) if l.startswith("error")]
                results[fs] = ("build", "\n".join(lines[errs[0]:errs[0] + 25]) if errs else p.stderr[-800:])
                continue
            r = subprocess.run([os.path.join(env["CARGO_TARGET_DIR"], "debug", "fp")], stdout=subprocess.PIPE, stderr=subprocess.PIPE, text=True, timeout=300)
            if r.returncode != 0:
                results[fs] = ("run", r.stderr[-800:])
                continue
            fpv = {}
            for line in r.stdout.splitlines():
                name = line.split(" ", 1)[0]
                fpv[name] = line.rsplit("bytes=", 1)[1]
                if name.endswith("_builder_twins"):
                    fpv["_raw_" + name] = line
            results[fs] = ("ok", fpv)

    import threading
    with Lock("fp"):
        ensure_fresh(base_env())
        ths = [threading.Thread(target=lane, args=(k,)) for k in range(lanes)]
        for t in ths:
            t.start()
        for t in ths:
            t.join()
    ok = {fs: r[1] for fs, r in results.items() if r[0] == "ok"}
    for fs, r in results.items():
        if r[0] == "build":
            # the probe (no features) tells apart "nothing builds" from "this combination does not build"
            if results.get((), ("x",))[0] != "ok":
                o.inconclusive.append("fingerprint binary does not build even without features: %s" % r[1][:500])
                return
            o.violations.append({"key": "C15/feature-set-does-not-build", "msg": "feature set {%s} does not build over the corpus:\n%s" % (",".join(fs), r[1]), "case": {"features": list(fs)}})
            o.violation_count += 1
        elif r[0] == "run":
            o.violations.append({"key": "C15/feature-set-crashes", "msg": "registering the corpus with features {%s} fails at run time: %s" % (",".join(fs), r[1]), "case": {"features": list(fs)}})
            o.violation_count += 1

    def first_diff(a, b):
        n = next((i for i in range(0, min(len(a), len(b)), 2) if a[i:i + 2] != b[i:i + 2]), min(len(a), len(b)))
        return n // 2

    def compare(part, group, what):
        ref = None
        for fs in group:
            v = ok[fs].get(part)
            if v is None:
                continue
            o.evaluations += 1
            if ref is None:
                ref = (fs, v)
            elif v != ref[1]:
                o.violations.append({"key": "C15/feature-changes-bytes", "msg": "%s: features {%s} and {%s} give different bytes for the same types (first difference at byte %d; lengths %d / %d)" % (
                    what, ",".join(ref[0]), ",".join(fs), first_diff(ref[1], v), len(ref[1]) // 2, len(v) // 2), "case": {"part": part, "a": list(ref[0]), "b": list(fs)}})
                o.violation_count += 1
    on = [fs for fs in ok if "docs" in fs]
    off = [fs for fs in ok if "docs" not in fs]
    compare("base", off, "docs off")
    compare("base", on, "docs on")
    compare("base_nodocs", list(ok), "docs stripped")
    compare("base_retained_nodocs", list(ok), "after retain(id % 3 == 0), docs stripped")
    compare("base_reversed_first_nodocs", list(ok), "roots in reverse order (first registry of the process), docs stripped")
    compare("base_again_nodocs", list(ok), "the same roots in a second registry of the same thread, docs stripped")
    for fs in ok:
        if ok[fs].get("base_again") != ok[fs].get("base"):
            o.violations.append({"key": "C15/second-registry-differs", "msg": "with features {%s} a second registry built from the same roots on the same thread has different bytes" % ",".join(fs), "case": {"features": list(fs)}})
            o.violation_count += 1
    compare("base_builder_twins", list(ok), "run-time builder fed every definition and a copy differing in one doc line (docs stripped first)")
    compare("small", list(ok), "registry of the first 60 roots, docs stripped")
    for fs in ok:
        v = ok[fs]
        for part in ("small_while_unwinding", "small_after_unwinding"):
            o.evaluations += 1
            if v.get(part) != v.get("small"):
                o.violations.append({"key": "C15/feature-changes-bytes", "msg": "with features {%s} the registry of the same roots built %s differs from the one built before (%s vs %s): under other feature sets they are the same" % (
                    ",".join(fs), "inside a destructor while the thread unwinds" if "while" in part else "after a caught panic", v.get(part), v.get("small")), "case": {"features": list(fs), "part": part}})
                o.violation_count += 1
        line = v.get("_raw_base_builder_twins", "")
        m = re.search(r"entries=(\d+) expected=(\d+)", line)
        if m and m.group(1) != m.group(2):
            o.violations.append({"key": "C15/feature-changes-bytes", "msg": "with features {%s} a PortableRegistryBuilder fed %s definitions that differ pairwise (some only in a doc line given as data) holds %s entries" % (",".join(fs), m.group(2), m.group(1)),
                                 "case": {"features": list(fs), "part": "base_builder_twins"}})
            o.violation_count += 1
    bv = [fs for fs in ok if "bit-vec" in fs]
    compare("bitvec", [fs for fs in bv if "docs" not in fs], "BitVec corpus, docs off")
    compare("bitvec", [fs for fs in bv if "docs" in fs], "BitVec corpus, docs on")
    compare("bitvec_nodocs", bv, "BitVec corpus, docs stripped")
    compare("bitvec_retained_nodocs", bv, "BitVec corpus after retain, docs stripped")
    if on and off and ok[on[0]].get("base") == ok[off[0]].get("base"):
        o.inconclusive.append("docs feature made no difference at all: corpus has no capturable docs")
    o.distinct = len(ok)
    import hashlib as H
    o.samples = [{"features": list(fs), "base_sha": H.sha256(v["base"].encode()).hexdigest()[:16], "base_nodocs_sha": H.sha256(v["base_nodocs"].encode()).hexdigest()[:16], "encoded_len": len(v["base"]) // 2} for fs, v in list(ok.items())[:8]]
    o.extra["feature_sets_built"] = [",".join(fs) for fs in sorted(ok)]
    o.extra["exhaustive"] = o.tier == "thorough"
    o.extra["exhaustive_scope"] = "thorough: all 48 effectively distinct feature sets over {std,serde,decode,bit-vec,schema,docs}; quick: 8 representative sets"
    o.rule = ("one fingerprint per (feature set, corpus part): SCALE bytes of the registry built from the fixed corpus (all built-in type expressions + generated definitions of this seed) in a fixed order, "
              "and the same with every docs vector cleared through public fields; compared offline across feature sets. evaluations = fingerprints compared, distinct = feature sets built.")
    o.assumptions = ["no real no_std target is installed: 'no_std' means scale-info compiled with `std` off inside a hosted binary", "the derive feature is always on (the corpus contains derived types)"]


def p_schema(o):
    o.replay_base = {"sub": "schema", "features": ["schema"]}
    # the schema must accept the documents under every feature set that has `schema` on: with and without bit-vec (and docs)
    configs = [("bitvec_", ("schema",), []), ("nobitvec_", ("schema",), ["--no-default-features"])]
    configs.append(("nodebug_", ("schema",), ["--profile", "nodebug"]))
    if o.tier == "thorough":
        configs.append(("docs_", ("schema", "docs"), []))
    for pre, feats, extra in configs:
        exe = build_rt(feats, extra_args=extra, tag="rt-schema-" + pre.strip("_"))
        d = os.path.join(WORK, "schema-%s%d" % (pre, os.getpid()))
        shutil.rmtree(d, ignore_errors=True)
        try:
            before = o.evaluations
            rep = rt_pass(o, exe, "schema", ["--cases", sizes(o.tier, 3_000, 60_000), "--emit-dir", d, "--shards", NCPU], timeout=sizes(o.tier, 300, 1200), prefix=pre, name="C19-schema-" + pre.strip("_"))
            if rep is None or rep.get("violation_count"):
                continue
            emitted = o.evaluations - before
            procs = []
            for k in range(NCPU):
                procs.append(subprocess.Popen(["python3-vt", os.path.join(VERIF, "driver", "validate_schema.py"), os.path.join(d, "schema.json"), os.path.join(d, "docs-%d.jsonl" % k)],
                                              stdout=subprocess.PIPE, stderr=subprocess.PIPE, text=True, env=base_env()))
            validated = 0
            for k, p in enumerate(procs):
                try:
                    so, se = p.communicate(timeout=sizes(o.tier, 600, 2400))
                except subprocess.TimeoutExpired:
                    p.kill()
                    o.inconclusive.append("watchdog: schema validator shard %d timed out" % k)
                    continue
                try:
                    r = json.loads(so.strip().splitlines()[-1])
                except Exception:
                    o.inconclusive.append("schema validator shard %d failed: %s" % (k, se[-400:]))
                    continue
                validated += r["validated"]
                if not r["schema_ok"]:
                    o.violations.append({"key": "C19/schema-invalid", "msg": r["errors"][0]["message"], "case": {"features": list(feats) + extra}})
                    o.violation_count += 1
                for e in r["errors"]:
                    if e.get("case") is None:
                        continue
                    e["features"] = list(feats) + extra
                    o.violations.append({"key": "C19/document-rejected", "msg": "schema (features %s%s) rejects a serialised registry at /%s: %s" % (",".join(feats), " " + " ".join(extra) if extra else "", e["path"], e["message"]), "case": e})
                    o.violation_count += 1
                o.extra["schema_draft"] = r.get("draft")
            o.extra[pre + "documents_validated"] = validated
            if validated != emitted:
                o.inconclusive.append("validated %d documents but %d were emitted (%s)" % (validated, emitted, pre))
        finally:
            shutil.rmtree(d, ignore_errors=True)
        o.need(["def_composite", "def_variant", "def_sequence", "def_array", "def_tuple", "def_primitive", "def_compact", "def_bitsequence", "skipped_type_param_null", "empty_path_omitted", "id_u32_max"], pre)
    # feature sets the main harness cannot be built in (it always links `decode`): the fingerprint binary forwards features one by one
    # and emits the schema plus the serialised corpus registries (whole, retained, empty, every third root alone) itself
    gen = gen_corpus(o.seed, o.tier)
    fp_sets = [("emit-schema",), ("emit-schema", "bit-vec"), ("emit-schema", "decode")]
    if o.tier == "thorough":
        fp_sets += [("emit-schema", "docs"), ("emit-schema", "serde", "decode", "bit-vec", "docs")]
    for fs in fp_sets:
        env = base_env()
        env["VERIF_GEN"] = gen
        env["CARGO_TARGET_DIR"] = os.path.join(TARGET, "fp-schema")
        d = os.path.join(WORK, "schema-fp-%d" % os.getpid())
        shutil.rmtree(d, ignore_errors=True)
        label = ",".join(("schema", "serde") + fs[1:])
        try:
            with Lock("fp"):
                ensure_fresh(base_env())
                p = subprocess.run(["cargo", "build", "--offline", "-q", "-p", "fp", "--features", ",".join(fs)], cwd=HARNESS, env=env, stdout=subprocess.PIPE, stderr=subprocess.PIPE, text=True)
            if p.returncode != 0:
                o.inconclusive.append("schema emitter for features {%s} does not build: %s" % (label, p.stderr[-500:]))
                continue
            r = subprocess.run([os.path.join(env["CARGO_TARGET_DIR"], "debug", "fp"), "--emit-schema", d], stdout=subprocess.PIPE, stderr=subprocess.PIPE, text=True, timeout=600)
            if r.returncode != 0:
                o.violations.append({"key": "C19/schema-generation-panics", "msg": "emitting schema and documents with features {%s} failed: %s" % (label, r.stderr[-600:]), "case": {"features": label}})
                o.violation_count += 1
                continue
            v = subprocess.run(["python3-vt", os.path.join(VERIF, "driver", "validate_schema.py"), os.path.join(d, "schema.json"), os.path.join(d, "docs-0.jsonl")], stdout=subprocess.PIPE, stderr=subprocess.PIPE, text=True,
                               env=base_env(), timeout=sizes(o.tier, 600, 2400))
            try:
                res = json.loads(v.stdout.strip().splitlines()[-1])
            except Exception:
                o.inconclusive.append("schema validator failed for features {%s}: %s" % (label, v.stderr[-400:]))
                continue
            o.evaluations += res["validated"]
            o.distinct += res["validated"]
            o.extra["fp_%s_documents_validated" % "_".join(fs[1:] or ("plain",))] = res["validated"]
            if res["validated"] < 10:
                o.inconclusive.append("only %d documents were emitted for features {%s}" % (res["validated"], label))
            if not res["schema_ok"]:
                o.violations.append({"key": "C19/schema-invalid", "msg": res["errors"][0]["message"], "case": {"features": label}})
                o.violation_count += 1
            for e in res["errors"]:
                if e.get("case") is None:
                    continue
                e["features"] = label
                o.violations.append({"key": "C19/document-rejected", "msg": "schema (features %s; no harness library, corpus registries) rejects a serialised registry at /%s: %s" % (label, e["path"], e["message"]), "case": e})
                o.violation_count += 1
        finally:
            shutil.rmtree(d, ignore_errors=True)
    o.rule = ("serialised registries: RegGen (both modes, every definition kind, optional parts absent/present/empty, skipped type parameter => null, ids up to u32::MAX, index 255, hostile strings) "
              "validated by python jsonschema Draft7Validator against schemars::schema_for!(PortableRegistry), generated by builds with the schema feature on and bit-vec on / off (thorough: also docs on). "
              "Non-trivial: >=1 entry; distinct = distinct documents.")
    o.assumptions = ["python jsonschema 4.26 Draft-07 validator is the judge of 'validates'", "serde_json output is what a consumer validates"]


# ---------------------------------------------------------------------------------------------
# property table

def sizes(tier, quick, thorough):
    return thorough if tier == "thorough" else quick


def p_codec(o):
    exe = build_rt()
    cases = sizes(o.tier, 150_000, 12_000_000)
    o.replay_base = {"sub": "codec"}
    rt_pass(o, exe, "codec", ["--cases", cases, "--max-secs", sizes(o.tier, 60, 420)], timeout=sizes(o.tier, 300, 1500))
    nodebug_pass(o, build_rt(profile="nodebug"), "codec", ["--cases", sizes(o.tier, 30_000, 1_000_000), "--max-secs", sizes(o.tier, 30, 120), "--first", 7_000_000], timeout=sizes(o.tier, 300, 900))
    if o.prop == "C06" or (o.prop == "C07" and o.tier == "thorough"):
        # the layout is little endian on every platform: the same monitors, interpreted by Miri for a big-endian target
        miri_pass(o, "codec", ["--cases", 100_000, "--light", 1], shards=sizes(o.tier, 8, NCPU), secs=sizes(o.tier, 20, 150), key="%s/miri-ub" % o.prop,
                  target="s390x-unknown-linux-gnu", prefix="miri_be_")
        o.need(["cases_run", "def_array"], "miri_be_")
    if o.prop == "C08":
        # the JSON form is target independent: the same monitor interpreted for a 32-bit target (usize / isize are 32 bits wide there)
        miri_pass(o, "codec", ["--cases", 100_000, "--light", 1], shards=sizes(o.tier, 8, NCPU), secs=sizes(o.tier, 20, 150), key="C08/miri-ub",
                  target="i686-unknown-linux-gnu", prefix="miri_32_")
        o.need(["json_light_cases"], "miri_32_")
    o.rule = ("RegGen registries (seeded; well-formed and arbitrary modes; every definition kind; ids from all four compact size classes; "
              "hostile unicode strings; vector lengths across 63/64 and, thorough, 16383/16384). A case is non-trivial when the registry has >=1 entry; "
              "distinct = distinct reference encodings (content hash).")
    o.need(["def_composite", "def_variant", "def_sequence", "def_array", "def_tuple", "def_primitive", "def_compact", "def_bitsequence",
            "id_class_1byte", "id_class_2byte", "id_class_4byte", "id_class_5byte", "mode_wellformed", "mode_arbitrary"])
    if o.prop == "C07":
        o.need(["neighbours_checked", "trailers_checked"])
    o.assumptions = ["reference codec/JSON writer (harness/vcommon/src/refcodec.rs, refjson.rs) written from the property text, anchored by hand-written byte vectors",
                     "PartialEq of PortableRegistry (derived) is structural equality",
                     "serde_json and parity-scale-codec primitives are correct"]


def p_retain(o):
    exe = build_rt()
    o.replay_base = {"sub": "retain"}
    rt_pass(o, exe, "retain", ["--cases", sizes(o.tier, 400_000, 30_000_000), "--max-secs", sizes(o.tier, 60, 420)], timeout=sizes(o.tier, 300, 1500),
            crash_is_violation=("C10/crash", "retain crashed the process (stack overflow / abort) on a well-formed registry"))
    nodebug_pass(o, build_rt(profile="nodebug"), "retain", ["--cases", sizes(o.tier, 100_000, 3_000_000), "--max-secs", sizes(o.tier, 30, 120)], timeout=sizes(o.tier, 300, 900),
                 crash=("C10/crash", "retain crashed the process (stack overflow / abort) on a well-formed registry"))
    # the same monitor interpreted by Miri for a 32-bit target: registries with more entries than a machine word has bits
    miri_pass(o, "retain", ["--cases", 100_000, "--light", 1], shards=sizes(o.tier, 8, NCPU), secs=sizes(o.tier, 25, 150), key="C10/miri-ub", target="i686-unknown-linux-gnu", prefix="miri_32_")
    o.need(["cases_run"], "miri_32_")
    o.rule = ("(well-formed RegGen registry, filter) pairs; filters: none, all, single id, last, pair, random subsets of several densities, only leaves, only roots. "
              "Non-trivial: filter accepts something, reachability adds ids beyond the accepted ones, and something is dropped. distinct = distinct (registry encoding, accepted set).")
    o.need(["reachable_only_through_type_param", "self_reference_retained", "second_retain_checked", "filter_none", "filter_all", "filter_single", "filter_random-subset", "filter_leaves", "filter_roots"]
           + ["retained_def_" + k for k in ("composite", "variant", "sequence", "array", "tuple", "primitive", "compact", "bitsequence")])
    o.assumptions = ["reference reachability + renaming (harness/vcommon/src/refretain.rs) written from the property text; the new numbering is not pinned",
                     "filters are pure functions of the id"]


def p_table(o):
    exe = build_rt()
    o.replay_base = {"sub": "table"}
    rt_pass(o, exe, "table", ["--cases", sizes(o.tier, 400_000, 30_000_000), "--max-secs", sizes(o.tier, 60, 360)], timeout=sizes(o.tier, 300, 1500))
    nodebug_pass(o, build_rt(profile="nodebug"), "table", ["--cases", sizes(o.tier, 100_000, 3_000_000), "--max-secs", sizes(o.tier, 30, 120)], timeout=sizes(o.tier, 300, 900))
    o.rule = ("random operation histories (<=200 ops) over tiny value alphabets (2-8 values) on Interner<u8>, Interner<String> and PortableRegistryBuilder "
              "(pool of RegGen types, self-referencing registrations through next_type_id). Every history with >=1 op is non-trivial; distinct = distinct op sequences.")
    o.need(["intern_new", "intern_duplicate", "get_hit", "get_miss", "resolve_in_range", "resolve_out_of_range", "elements_compared",
            "register_new", "register_duplicate", "register_self_reference", "builder_get_hit", "builder_get_out_of_range", "finish_calls", "next_type_id_calls"])
    o.extra["hooks"] = "see hook_invariant_checks counter (0 => hooks unavailable on this tree)"
    if o.tier == "thorough":
        # the same workload under AddressSanitizer and a Miri slice: aimed at an `unsafe` indexing shortcut appearing in resolve / get
        try:
            aexe = build_asan()
            asan_pass(o, aexe, "table", ["--cases", 1_000_000, "--first", 50_000_000, "--max-secs", 120], timeout=900, key="C12/asan-report")
        except Inconclusive as e:
            o.inconclusive.append("ASan build unavailable: %s" % str(e)[-400:])
        miri_pass(o, "table", ["--cases", 100_000, "--ops", 25], shards=NCPU, secs=150, key="C12/miri-ub")
    o.assumptions = ["list model: Vec + linear search", "Symbol ids observed through into_untracked().id"]


def p_ident(o):
    exe = build_rt()
    o.replay_base = {"sub": "ident"}
    rt_pass(o, exe, "ident", ["--cases", sizes(o.tier, 300_000, 3_000_000), "--maxlen", sizes(o.tier, 6, 7)], timeout=sizes(o.tier, 300, 1500))
    # the same workload in a build without debug assertions: validation must not live in debug_assert! only
    exe2 = build_rt(profile="nodebug")
    rt_pass(o, exe2, "ident", ["--cases", sizes(o.tier, 100_000, 1_000_000), "--maxlen", sizes(o.tier, 5, 6)], timeout=sizes(o.tier, 300, 1500), prefix="nodebug_", name="C18-ident-nodebug")
    o.need(["accepted", "rejected", "new_accepted", "new_rejected"], "nodebug_")
    # path construction must not depend on the feature set either: a fixed probe list through the fingerprint binary, no_std vs std
    try:
        d = gen_corpus(o.seed, o.tier)
        probes = {}
        with Lock("fp"):
            ensure_fresh(base_env())
            for fs in ((), ("std",)):
                env = base_env()
                env["VERIF_GEN"] = d
                env["CARGO_TARGET_DIR"] = os.path.join(TARGET, "fp0")
                p = subprocess.run(["cargo", "build", "--offline", "-q", "-p", "fp"] + (["--features", ",".join(fs)] if fs else []), cwd=HARNESS, env=env, stdout=subprocess.PIPE, stderr=subprocess.PIPE, text=True)
                if p.returncode != 0:
                    o.inconclusive.append("fingerprint binary does not build for the path probes (%s): %s" % (fs, p.stderr[-300:]))
                    break
                r = subprocess.run([os.path.join(env["CARGO_TARGET_DIR"], "debug", "fp")], stdout=subprocess.PIPE, stderr=subprocess.PIPE, text=True, timeout=300)
                line = [l for l in r.stdout.splitlines() if l.startswith("paths ")]
                probes[fs] = line[0] if line else None
        if len(probes) == 2:
            o.evaluations += 2
            if probes[()] is None or probes[()] != probes[("std",)]:
                a = bytes.fromhex((probes[()] or "paths bytes=").split("bytes=")[1]).decode(errors="replace")
                b = bytes.fromhex((probes[("std",)] or "paths bytes=").split("bytes=")[1]).decode(errors="replace")
                o.violations.append({"key": "C18/path-construction-depends-on-features", "msg": "Path::new / from_segments over a fixed probe list give different outcomes without and with the std feature:\n  no_std: %s\n  std:    %s" % (a[:600], b[:600]), "case": {"no_std": a, "std": b}})
                o.violation_count += 1
            o.extra["feature_probe"] = "100 (ident, module) probes + 6 segment lists through a no_std and a std build: identical outcomes"
    except Inconclusive as e:
        o.inconclusive.append(str(e)[:300])
    o.rule = ("exhaustive: every string of length <= L (L=6 quick, 7 thorough) over the class-representative alphabet {a,Z,_,7,r,#,:,space,-,e-acute,superscript-two} as a single segment (through iterators with exact / inexact / no size hint); "
              "every segment list of length <= 3 over a 40-string pool; Path::new over (40 idents x 1649 modules); seeded new_with_replace tables. "
              "Oracle: explicit DFA for (r#)?[A-Za-z_][A-Za-z0-9_]*. The workload runs in the dev profile and again in a profile without debug assertions. distinct = distinct inputs; all inputs with >=1 segment are non-trivial.")
    o.extra["exhaustive"] = True
    o.extra["exhaustive_scope"] = "single segments up to the length bound and segment lists up to 3 over the pool are enumerated completely; replacement tables are sampled"
    o.need(["accepted", "rejected", "new_accepted", "new_rejected", "accessor_checks", "replace_cases"])
    o.assumptions = ["identifier DFA (harness/vcommon/src/ident.rs) is the specification of a valid segment", "alphabet is class-representative: one lower, one upper, underscore, digit, the raw-prefix letters, separator, and three invalid classes"]


PROPS = {
    "C01": dict(fn=p_hist, level="exploration"),
    "C02": dict(fn=p_hist, level="exploration"),
    "C03": dict(fn=p_values, level="exploration"),
    "C04": dict(fn=p_values, level="exploration"),
    "C05": dict(fn=p_hist, level="exploration"),
    "C11": dict(fn=p_hist, level="exploration"),
    "C06": dict(fn=p_codec, level="exploration"),
    "C07": dict(fn=p_codec, level="exploration"),
    "C08": dict(fn=p_codec, level="exploration"),
    "C09": dict(fn=p_mirror, level="exploration"),
    "C10": dict(fn=p_retain, level="exploration"),
    "C13": dict(fn=p_derive_accepts, level="exploration"),
    "C14": dict(fn=p_decode, level="fault_enumeration"),
    "C12": dict(fn=p_table, level="exploration"),
    "C15": dict(fn=p_features, level="exploration"),
    "C16": dict(fn=p_pairs, level="exploration"),
    "C17": dict(fn=p_builders, level="exploration"),
    "C18": dict(fn=p_ident, level="exploration"),
    "C19": dict(fn=p_schema, level="exploration"),
    "C20": dict(fn=p_rejects, level="exploration"),
}


def replay(prop, path):
    rp = json.load(open(path))
    case = rp.get("case") or {}
    sub = (rp.get("replay") or {}).get("sub")
    if sub is None or not isinstance(case, dict) or "case" not in case:
        print(json.dumps(rp, indent=1))
        return 0
    if (rp.get("replay") or {}).get("bin") == "rtc":
        o = Outcome(prop, rp["tier"], rp["seed"], "exploration")
        exe = build_rtc(o, tuple((rp.get("replay") or {}).get("features", ())))
    else:
        exe = build_rt(tuple((rp.get("replay") or {}).get("features", ())))
    full = [sub, "--prop", prop, "--seed", rp["seed"], "--tier", rp["tier"], "--case", case["case"]] + list((rp.get("replay") or {}).get("args", []))
    rep, rc, err = run_rt(exe, full, 600, "replay")
    print(json.dumps({"recorded": {"key": rp["key"], "message": rp["message"]}, "replayed": (rep or {}).get("violations"), "rc": rc, "stderr": err}, indent=1))
    return 1 if rep and rep.get("violation_count") else 0


def main(argv):
    if not argv or argv[0] in ("-h", "--help"):
        print("usage: check <Cxx> [--tier quick|thorough] [--replay FILE]")
        return 64
    prop = argv[0]
    tier = os.environ.get("VERIF_TIER", "quick")
    rp = None
    i = 1
    while i < len(argv):
        if argv[i] == "--tier":
            tier = argv[i + 1]
            i += 2
        elif argv[i] == "--replay":
            rp = argv[i + 1]
            i += 2
        else:
            i += 1
    if tier not in ("quick", "thorough"):
        tier = "quick"
    seed = int(os.environ.get("VERIF_SEED", "1") or "1")
    if prop == "setup":
        return setup()
    if prop not in PROPS:
        print("unknown property %s" % prop)
        return 64
    if rp:
        return replay(prop, rp)
    o = Outcome(prop, tier, seed, PROPS[prop]["level"])
    try:
        PROPS[prop]["fn"](o)
    except Inconclusive as e:
        o.inconclusive.append(str(e))
    finally:
        for f in os.listdir(os.path.join(WORK, "bin")) if os.path.isdir(os.path.join(WORK, "bin")) else []:
            if f.endswith("-%d" % os.getpid()):
                try:
                    os.remove(os.path.join(WORK, "bin", f))
                except OSError:
                    pass
    return finish(o)


def setup():
    """Pre-build the harness so that the first check does not pay for the dependency build."""
    try:
        exe = build_rt()
        os.remove(exe)
    except Inconclusive as e:
        log(str(e))
        return 1
    # Miri sysroot for the big-endian pass of C06 (built on first use otherwise)
    try:
        for tgt in ("s390x-unknown-linux-gnu", "i686-unknown-linux-gnu"):
            subprocess.run(["cargo", "+nightly", "miri", "setup", "--target", tgt], cwd=HARNESS, env=base_env(), stdout=subprocess.PIPE, stderr=subprocess.PIPE, timeout=900)
    except Exception as e:
        log("miri setup for s390x skipped: %s" % e)
    return 0
