#!/bin/bash
# Run every quick check at seed 1 on the current /repo tree, validate MANIFEST + evidence; exit non-zero if anything is not silent.
cd "$(dirname "$0")/.."
if [ -n "$(git -C /repo status --porcelain)" ]; then echo "refusing: /repo has local modifications"; exit 2; fi
python3 driver/mkmanifest.py || exit 2
bad=0
for p in C01 C02 C03 C04 C05 C06 C07 C08 C09 C10 C11 C12 C13 C14 C15 C16 C17 C18 C19 C20; do
  out=$(VERIF_SEED=1 ./check $p --tier quick 2>&1); rc=$?
  echo "$out" | grep -E "^$p " | tail -1
  if [ $rc -ne 0 ]; then bad=1; echo "$out" | grep -E "VIOLATION|INCONCLUSIVE|violation \[" | head -4 | cut -c1-500; fi
done
python3-vt - <<'PY' 2>&1 | grep -v WARNING
import json, jsonschema, glob, sys
m = json.load(open('/verif/MANIFEST.json'))
jsonschema.validate(m, json.load(open('/root/.vp/MANIFEST.schema.json')))
n = 0
for c in m['checks']:
    e = json.load(open(c['evidence_file']))
    jsonschema.validate(e, json.load(open('/root/.vp/EVIDENCE.schema.json')))
    assert e['tier'] == 'quick' and e['seed'] == 1 and e['coverage']['verdict'].startswith('held'), c['property_id']
    n += 1
print("manifest + %d evidence files valid" % n)
PY
[ ${PIPESTATUS[0]} -eq 0 ] || bad=1
exit $bad
