#!/usr/bin/python3
# Process the seeded changes delivered by the sub-agents under /tmp/seed/<Cxx>/out:
#   phase 1 (parallel): confirm each in its own scratch worktree (suite passes, demo passes without / fails with)
#   phase 2 (serial):   apply to /repo, run the property's quick check, undo
# Confirmed changes are kept as /verif/seeded/<Cxx>-<n>/ {patch.diff, demo.*, change.md, meta.json}
import concurrent.futures as cf
import json
import os
import shutil
import subprocess
import sys

VERIF = os.path.dirname(os.path.dirname(os.path.abspath(__file__)))
SEEDT = os.path.join(VERIF, "driver", "seedtest.py")


ROUND = 1


def jobs(props):
    out = []
    for p in props:
        d = "/tmp/seed/%s/out%s" % (p, "" if ROUND == 1 else str(ROUND))
        for n in (1, 2, 3):
            patch = os.path.join(d, "change%d.diff" % n)
            demo = next((os.path.join(d, f) for f in ("demo%d.sh" % n, "demo%d.rs" % n) if os.path.exists(os.path.join(d, f))), None)
            if os.path.exists(patch) and demo:
                out.append((p, n, patch, demo))
    return out


def confirm(job, lane):
    p, n, patch, demo = job
    env = dict(os.environ, SEED_SCRATCH="/tmp/seedverify%d" % lane)
    r = subprocess.run(["/usr/bin/python3", SEEDT, "confirm", patch, demo], stdout=subprocess.PIPE, stderr=subprocess.STDOUT, text=True, env=env)
    try:
        return json.loads(r.stdout[r.stdout.index("{"):])
    except Exception:
        return {"confirmed": False, "raw": r.stdout[-800:]}


def main():
    global ROUND
    props = sys.argv[1:]
    if props and props[0].startswith("--round="):
        ROUND = int(props[0].split("=")[1])
        props = props[1:]
    js = jobs(props)
    lanes = 4
    results = {}

    def run_lane(k):
        for j in js[k::lanes]:
            results[(j[0], j[1])] = confirm(j, k)
            print("confirm %s-%d: %s" % (j[0], j[1], results[(j[0], j[1])].get("confirmed")), flush=True)
    with cf.ThreadPoolExecutor(max_workers=lanes) as ex:
        list(ex.map(run_lane, range(lanes)))
    for j in js:
        p, n, patch, demo = j
        c = results[(p, n)]
        dst = os.path.join(VERIF, "seeded", ("%s-%d" % (p, n)) if ROUND == 1 else ("%s-r%d-%d" % (p, ROUND, n)))
        if not c.get("confirmed"):
            print("NOT CONFIRMED %s-%d: %s" % (p, n, json.dumps(c)[:600]), flush=True)
            continue
        r = subprocess.run(["/usr/bin/python3", SEEDT, "detect", patch, p], stdout=subprocess.PIPE, stderr=subprocess.STDOUT, text=True)
        try:
            det = json.loads(r.stdout[r.stdout.index("{"):])
        except Exception:
            det = {"raw": r.stdout[-800:]}
        os.makedirs(dst, exist_ok=True)
        shutil.copy(patch, os.path.join(dst, "patch.diff"))
        for ext in (".sh", ".rs"):
            for stem in ("demo%d" % n, "demo%d_test" % n):
                f = os.path.join(os.path.dirname(patch), stem + ext)
                if os.path.exists(f):
                    shutil.copy(f, os.path.join(dst, stem + ext))
        md = os.path.join(os.path.dirname(patch), "change%d.md" % n)
        if os.path.exists(md):
            shutil.copy(md, os.path.join(dst, "change.md"))
        caught = det.get(p, {}).get("exit") == 1
        meta = {"property": p, "origin": "independent sub-agent given only the property text and a scratch worktree",
                "description_and_what_it_needs_to_manifest": (open(md).read() if os.path.exists(md) else "see change.md"), "confirmation": c,
                "ran": ["driver/seedtest.py confirm patch.diff demo (scratch worktree: suite + demo with/without)", "driver/seedtest.py detect patch.diff %s (git apply to /repo, ./check %s --tier quick, git checkout)" % (p, p)],
                "detection": {"check": p, "tier": "quick", "caught": caught, "result": det.get(p, det)}}
        json.dump(meta, open(os.path.join(dst, "meta.json"), "w"), indent=1)
        print("detect %s-%d: caught=%s %s" % (p, n, caught, json.dumps(det.get(p, det))[:500]), flush=True)


main()
