#!/usr/bin/python3
# Regenerates /verif/MANIFEST.json from the table below (kept in one place so it stays valid).
import json, os, sys
sys.dont_write_bytecode = True
VERIF = os.path.dirname(os.path.dirname(os.path.abspath(__file__)))

CHECKS = {
 "C06": dict(level="exploration", design="5/C06", technique="differential monitor: library SCALE codec vs independent reference V14 codec on generated registries, plus hand-written anchor byte vectors",
   text="Every generated registry (all definition kinds, all compact id classes, hostile strings, boundary lengths) is encoded by the library and by an independent encoder written from the V14 layout and compared byte for byte; each decoder reads the other's bytes, from a slice and from a streaming input of unknown length; five registries of 1025 ... 20000 entries are included. Sampled, not exhaustive: holds on the registries generated.",
   note="Trusted: the reference codec (anchored by hand-derived byte vectors), derived PartialEq on registry types."),
 "C07": dict(level="exploration", design="5/C07", technique="round-trip / determinism / injectivity monitors over generated registries and their single-edit neighbours",
   text="For each generated registry: decode(encode(r)) == r with exact consumption (also with random trailers), encode deterministic, every single-edit neighbour encodes differently, and a run-wide exact map of short encodings reports collisions between unequal registries.",
   note="Injectivity is checked against mutator neighbours and among short encodings generated in the run, not over all pairs."),
 "C08": dict(level="exploration", design="5/C08", technique="differential monitor: serde JSON output vs reference JSON writer built from the documented shape; round trips through value, text and pretty text; JSON vs SCALE agreement",
   text="Serialised JSON of every generated registry equals the Value built by an independent writer from the documented key names / tags / omission rules; keys are checked against the vocabulary; from_value/from_str round trips give back the registry and agree with the SCALE round trip.",
   note="Bit-sequence member names are pinned as released (bit_store_type / bit_order_type); see DESIGN.md C08 note."),
 "C10": dict(level="exploration", design="5/C10", technique="reference-model monitor: retain vs independent reachability closure + id-renaming check on generated well-formed registries and filters",
   text="For each generated (well-formed registry, filter) pair the result of retain is checked against a specification-level reference: result dense and closed, map keys == reachability closure over all reference positions incl. type parameters, map bijective onto 0..n, every retained entry == original with ids renamed. One case in five uses a stateful FnMut filter; one in sixty is a long reference chain (up to 500 / 2000 hops) filtered at one end. Panics/crashes inside retain are violations.",
   note="Trusted: refretain.rs (written from the statement). The new numbering order is not pinned. Registries up to 300 entries."),
 "C12": dict(level="exploration", design="5/C12", technique="lock-step list-model monitor over random operation histories + structural invariant hooks (verif_invariants) after every operation",
   text="Random histories of intern_or_get/get/resolve/elements on Interner<u8>/Interner<String> and register_type/next_type_id/get/finish on PortableRegistryBuilder are executed in lock step with a Vec+linear-search model; every return value is compared; the map/vec bijection hook runs after every operation. Value pools are half single-edit neighbours of each other; one history in six grows the table past 16 / 32 entries. Thorough adds the workload under ASan and a Miri slice.",
   note="Trusted: the list model. Symbols are obtained through get (immutable borrow) and from a larger foreign interner for out-of-range resolution."),
 "C18": dict(level="exploration", design="5/C18", technique="exhaustive enumeration of inputs over a class-representative alphabet against an explicit identifier DFA; accessor/display monitors",
   text="All strings up to length 6 (quick) / 7 (thorough) over an 11-symbol class-representative alphabet (incl. a non-ASCII letter and a Unicode numeric) as single segments, all segment lists up to length 3 over a 40-string pool, Path::new over 40x1649 (ident, module) pairs and seeded replacement tables are run through Path::from_segments/new/new_with_replace and compared with a DFA oracle, including the index of the first offending segment and ident/namespace/display of the result; segments are fed through iterators with exact / inexact / no size hint, and the whole workload runs a second time in a build profile without debug assertions.",
   note="Exhaustive only within the stated alphabet and length bound; replacement tables are sampled."),
 "C01": dict(level="exploration", design="5/C01", technique="invariant walker (dense + closed) at quiescent points over every registry produced by registration histories, the runtime builder, retain and decode; hook invariants after every operation",
   text="Every registry handed out during seeded registration histories over a compiled-in type corpus (in place after each op, frozen, prefixes, after decode / JSON round trip, after retain) and by PortableRegistryBuilder histories is walked: entry i carries id i, resolve(i) is that entry, every mentioned id at every reference position resolves. Registry/interner structural hooks run after every op. A RegGen-based retain producer, a 16 400-entry registry through every producer and a second (smaller) pass in a build without debug assertions are included.",
   note="For builder histories closure is required only for disciplined histories (ids handed out earlier or announced by next_type_id); density always."),
 "C02": dict(level="exploration", design="5/C02", technique="coinductive bisimulation monitor between type_info() graphs and the portable registry, from every root of every history; child-process boundary for non-termination",
   text="For every root of every history (and every map_into_portable output) the harness evaluates type_info() itself and compares it with what the returned id resolves to: path, parameter names and skipped pattern, field names/order/type names/docs, variant names/indices/docs, array lengths, recursing into each referenced type against the id at the same position; one type identity must pair with exactly one id. Cyclic, mutually recursive and parameter-only-cyclic hand-written types, a hand-written named primitive and 40 ... 300-level nestings are in the core corpus; the coinduction is keyed on (identity, definition); a second pass runs without debug assertions.",
   note="Independent of IntoPortable. A crash while registering is a violation (termination is promised); a watchdog timeout is inconclusive."),
 "C05": dict(level="exploration", design="5/C05", technique="history monitors: re-registration leaves snapshot unchanged; ids vs generator-computed canonical identities over all root pairs; entry count vs independent reachability walk; per-type evaluation counters + hook store-once events",
   text="Over seeded histories with forced repetition and alias-first / target-first orders: registering a present type changes nothing; types equal up to transparent wrappers / Vec-slice / String-str / PhantomData share an id, types whose deep canonical identity differs never do; entries == distinct reachable identities; instrumented hand-written types and the DefStore hook show at most one evaluation per identity per registry; the frozen registry is judged too (entry count, every handed-out id, retain(all)); twins, corpus neighbours and constructor siblings are steered into one history; a second pass runs without debug assertions.",
   note="Pairs that differ only by an alias inside a generic argument (Vec<Box<u8>> vs Vec<u8>) are asserted neither way."),
 "C11": dict(level="exploration", design="5/C11", technique="prefix monitor over snapshots after every operation, replay and cross-process determinism digests, constructed id-bijection for permuted roots, hook append-only monitor",
   text="Each snapshot is an entry-for-entry prefix of the next; every id ever returned still resolves to the definition it had; replaying a history (same process and two separate processes) gives identical bytes; registering the same roots in 3 random other orders gives a registry for which an id bijection is constructed from the roots and checked total, injective and content preserving; one history in eight is also replayed on a fresh thread; a second pass runs without debug assertions.",
   note="Numbering order itself is never pinned."),
 "C14": dict(level="fault_enumeration", design="5/C14", technique="fault-injection monitor: all truncations and all single-bit flips (plus insert/delete/slot-overwrite classes) of valid encodings through decode under catch_unwind, a counting allocator, re-encode/resolve oracles; ASan and Miri slices in the thorough tier",
   text="For every base input all truncations, all single-bit flips, every byte insert/delete/duplicate position and every length/id/option/tag slot x 17 hostile encodings are decoded; plus splices, random bytes, fault sequences, lying nested lengths and JSON truncation/byte/structural faults. Observed per input (slice input; a slice of them also through a streaming input): panic (catch_unwind), abort/signal (child process), peak heap <= 128*len+256KiB, accepted => re-encodes to exactly the consumed bytes, resolve answers none out of range. Thorough adds the same workload under AddressSanitizer and a Miri slice.",
   note="Enumerated completely only for truncations/bit flips/slot overwrites of the generated base inputs; the memory bound is a fixed calibrated constant; a clean sanitizer run is 'no report on N inputs', not memory safety."),
 "C19": dict(level="exploration", design="5/C19", technique="external-validator monitor: python jsonschema Draft-07 validation of serialised registries against schemars::schema_for!(PortableRegistry)",
   text="The schema is generated by the real code built with the schema feature, checked with check_schema, and every serialised RegGen registry (all definition kinds, absent/present/empty optional parts, null skipped parameter, u32::MAX ids, index 255, hostile strings) is validated by an independent validator; the schema is generated by builds with `schema` on and bit-vec on / off (thorough: also docs on).",
   note="Trusted: python jsonschema 4.26."),
 "C13": dict(level="exploration", design="5/C13", technique="compiler-event monitor: generated positive programs compiled one by one against the rlib built from /repo (rustc JSON diagnostics as event log), accepted programs linked and run to observe type_info() of each instantiation",
   text="Each generated generic definition of the supported grammar (direct / container / PhantomData / associated-type / self-referential uses; lifetimes, const parameters, defaults, where clauses, bounds(..), skip_type_params, codec skip / compact / encoded_as members; four shapes each; seeded combinations) must compile and be usable for instantiations that deliberately use types WITHOUT TypeInfo for skipped parameters and skipped members; running the accepted programs must show the declared Some/None parameter pattern.",
   note="The code under test (the proc-macro) runs inside rustc; the oracle is offline over recorded compiler runs. A probe program separates 'nothing builds' (inconclusive) from 'this program is rejected' (violation)."),
 "C15": dict(level="exploration", design="5/C15", technique="configuration-matrix monitor: per-feature-set fingerprints (registry bytes, and bytes with docs cleared) printed by a binary that forwards features to scale-info, compared offline",
   text="The fixed corpus (all built-in type expressions + this seed's generated definitions + hand-written types) is registered in a fixed order by a binary built once per feature set (quick: 8 sets; thorough: all 48 effectively distinct sets over std/serde/decode/bit-vec/schema/docs); all docs-off sets must give identical bytes, all docs-on sets identical bytes, and the docs-stripped bytes must be identical across every set; the BitVec part is compared across the sets enabling bit-vec.",
   note="No no_std target is installed: 'no_std' means scale-info and the codec compiled without `std` inside a hosted binary."),
 "C17": dict(level="exploration", design="5/C17", technique="argument-list model monitor over random builder scripts in both forms under two builds (docs off/on), plus a PhantomData erasure scan over every definition reachable from the corpus",
   text="Random scripts drive TypeBuilder / Fields / FieldBuilder / Variants / VariantBuilder and the plain constructors with varying legal setter orders in portable form (runtime strings/ids) and compile-time form (member types from a fixed set incl. PhantomData instantiations and a compact member); the built Type must equal the supplied arguments element by element, minus PhantomData members, with docs kept per setter kind and feature. All definitions reachable from ~480 corpus types are scanned for a PhantomData listed as field or tuple element.",
   note="Each setter at most once per builder; wrappers of PhantomData are asserted neither way."),
 "C20": dict(level="exploration", design="5/C20", technique="compiler-event monitor: an enumerated negative grammar of ill-formed programs, each compiled on its own next to a positive twin; offline oracle over the rustc diagnostics (must be rejected with an error located in the construct)",
   text="Every public way to obtain each builder typestate (constructors, Type::builder*, Field::builder, Default::default() at every state parameter) x every finisher with one required part missing or of the wrong kind (no path, variant without index, field without type, named among unnamed, unnamed among named; compile-time and portable form), and the container-level derive errors (union, unknown keys, repeated bounds/skip_type_params/capture_docs/crate in one or two attributes, invalid capture_docs values, bounds(..) leaving a parameter unbound). The twin must compile, the negative must not (a negative that compiles is a violation whatever its twin does, and is run to record the outcome); a derive negative must be rejected by the derive itself (proc-macro error), not by rustc inside an emitted impl.",
   note="For the typestate half no scale-info code executes (rustc type-checks the API). Unknown keys on fields/variants are outside the statement."),
 "C03": dict(level="exploration", design="5/C03", technique="generated-program monitor: values of generated derive(TypeInfo, Encode) definitions are encoded by the codec and read back by a schema-directed reference decoder that knows only the registry; compared with the generator's declaration model",
   text="A seeded generator emits struct/enum definitions over the grammar of C03 (all shapes, generics, recursion, PhantomData, lifetimes/const parameters; skip, compact, index, encoded_as, discriminants, rename); the harness is compiled against /repo; for each instantiation boundary-heavy values are encoded and decoded from the PortableRegistry alone: exact consumption, same variant identifier, field identifiers, order and leaves; the metadata index must be the first byte. A quarter as many cases register several types in one register_types call and decode through the id handed back per position.",
   note="Trusted: valdec.rs (SCALE rules from the statement), the generator's Model emission, parity-scale-codec's derive as ground truth for bytes."),
 "C04": dict(level="exploration", design="5/C04", technique="reference-decoder monitor over every built-in impl family: codec-encoded values decoded from the registry description alone and compared with documented-shape models",
   text="Every std type with type info named in C04 (each member of each macro family, nested to depth 4 by seeded expressions) is exercised with boundary-heavy values; the schema-directed decoder must consume the encoding exactly and reproduce the documented shape (Option 0/1, Result 0/1, BTreeMap as sequence of pairs, Duration (u64,u32), NonZero wrapper, Range {start,end}, Cow wrapper, transparent wrappers, PhantomData empty, BitVec bit list by store width and Lsb0/Msb0). char and 19/20-tuples: shape only. Batch registrations (register_types) are decoded through the ids handed back per position.",
   note="BitVec values are exercised natively only (bitvec's own pointer code trips Miri)."),
 "C09": dict(level="exploration", design="5/C09", technique="generated-program monitor under two configurations: type_info() of generated definitions vs the generator's declaration model (path, parameters, members, type names, docs) with the docs feature off and on",
   text="The generator keeps the AST of every definition it writes (nested and raw-named modules, raw identifiers, generics with bounds/defaults/const/lifetimes, replace_segment, skip_type_params, rename, compact, skip, PhantomData, docs in both syntaxes with 0/1/2 leading spaces and hostile content, all capture_docs values) and emits the expected metadata by the rules of C09; the harness is built twice (docs off/on) and every instantiation is compared.",
   note="encoded_as members: the type id is not asserted (C09 does not settle it); chained replace_segment rules, block comments, macro-generated types are outside the grammar."),
 "C16": dict(level="exploration", design="5/C16", technique="all-pairs monitor over the corpus: ==/cmp/hash of MetaType vs declared identity taken from the trait; coherence of definitions and registration order inside identity classes; transitivity on triples",
   text="For every ordered pair of ~480 corpus types: a==b iff TypeId::of::<Identity> equal (computed in the harness from the trait), cmp Equal iff ==, antisymmetry, partial_cmp, equal => equal hashes, type_id() is the declared identity; within each identity class all type_info() are equal and registering in either order gives the same registry; transitivity over 150^3 triples; sort from two initial orders agrees. The whole comparison runs a second time in an optimised build (opt-level 2, no debug assertions: merged functions).",
   note="Sampled over the generated corpus only."),
}

NOT_YET = {}

def main():
    props = [json.loads(l) for l in open(os.path.join(VERIF, "properties.jsonl"))]
    checks = []
    na = []
    for p in props:
        pid = p["id"]
        if pid in CHECKS:
            c = CHECKS[pid]
            checks.append({
                "property_id": pid,
                "quick_cmd": "./check %s --tier quick" % pid,
                "thorough_cmd": "./check %s --tier thorough" % pid,
                "evidence_file": "/verif/evidence/%s.json" % pid,
                "replay_cmd_template": "./check %s --replay {path}" % pid,
                "engine": "rt-monitors",
                "level_claimed": {"category": c["level"], "text": c["text"], "design_ref": "DESIGN.md section " + c["design"]},
                "level_note": c["note"],
                "technique": c["technique"],
            })
        else:
            na.append({"property_id": pid, "reason": NOT_YET.get(pid, "check not built yet in this round (planned in DESIGN.md section 5); nothing is claimed for it")})
    m = {
        "version": 1,
        "setup_cmd": "./check setup",
        "hooks": {
            "guard": "--cfg scale_info_verif",
            "enable": "RUSTFLAGS='--cfg scale_info_verif --check-cfg cfg(scale_info_verif)' (set by ./check for every harness build); hooks are additionally std-only",
            "baseline_off_cmd": "cd /repo && cargo test --workspace --no-fail-fast --offline",
            "source_commits": json.load(open(os.path.join(VERIF, "hooks_commits.json"))) if os.path.exists(os.path.join(VERIF, "hooks_commits.json")) else [],
            "add_only": True,
        },
        "engines": [
            {"name": "rt-monitors", "path": "/verif/harness", "serves_properties": sorted(CHECKS), "kind_free_text": "monitored Rust binaries rt / rtc / fp (reference models, invariant walkers, event-log checkers, generated type corpus) and per-program rustc runs, all built against /repo's working tree and driven by /verif/check (driver/vdriver.py); program generators in /verif/gen"},
        ],
        "checks": checks,
        "not_applicable": na,
        "notes": "Technique family: runtime monitoring and sanitizers. Every check is `./check <id> --tier quick|thorough`; VERIF_SEED selects the workload seed. Exit 0 held / 1 violation (VIOLATION line) / 2 inconclusive (INCONCLUSIVE line, never a VIOLATION).",
    }
    with open(os.path.join(VERIF, "MANIFEST.json"), "w") as fh:
        json.dump(m, fh, indent=1)
        fh.write("\n")

if __name__ == "__main__":
    main()
