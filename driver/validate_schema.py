# Runs under python3-vt (tooling venv with jsonschema). Validates one shard of documents against the schema.
import json, sys
import jsonschema

def main():
    schema = json.load(open(sys.argv[1]))
    out = {"validated": 0, "failed": 0, "errors": [], "schema_ok": True, "draft": schema.get("$schema")}
    try:
        jsonschema.Draft7Validator.check_schema(schema)
    except Exception as e:
        out["schema_ok"] = False
        out["errors"].append({"case": None, "path": "", "message": "schema itself is invalid: %s" % str(e)[:500]})
        print(json.dumps(out))
        return
    v = jsonschema.Draft7Validator(schema)
    for line in open(sys.argv[2]):
        rec = json.loads(line)
        errs = sorted(v.iter_errors(rec["doc"]), key=lambda e: list(e.absolute_path))
        out["validated"] += 1
        if errs:
            out["failed"] += 1
            if len(out["errors"]) < 5:
                e = errs[0]
                out["errors"].append({"case": rec["case"], "origin": rec["origin"], "path": "/".join(str(x) for x in e.absolute_path), "message": e.message[:400],
                                      "doc": json.dumps(rec["doc"])[:1500]})
    print(json.dumps(out))

main()
