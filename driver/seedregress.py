#!/usr/bin/python3
# Re-run the detection step for every seeded change kept under /verif/seeded (serial: each is applied to /repo and undone).
# usage: seedregress.py [tier] [name-prefix ...]; writes /verif/seeded/REGRESSION.json
import glob, json, os, subprocess, sys, time
V = os.path.dirname(os.path.dirname(os.path.abspath(__file__)))
tier = sys.argv[1] if len(sys.argv) > 1 else "quick"
pref = sys.argv[2:]
out = {}
for d in sorted(glob.glob(V + "/seeded/C*")):
    name = os.path.basename(d)
    if pref and not any(name.startswith(p) for p in pref):
        continue
    prop = name[:3]
    t0 = time.time()
    r = subprocess.run(["/usr/bin/python3", V + "/driver/seedtest.py", "detect", d + "/patch.diff", prop], stdout=subprocess.PIPE, stderr=subprocess.STDOUT, text=True, env=dict(os.environ, VERIF_TIER=tier))
    try:
        det = json.loads(r.stdout[r.stdout.index("{"):])[prop]
    except Exception:
        det = {"exit": None, "raw": r.stdout[-500:]}
    out[name] = {"exit": det.get("exit"), "first": (det.get("first_violation") or "")[:160], "secs": round(time.time() - t0, 1)}
    print(name, det.get("exit"), (det.get("first_violation") or str(det.get("lines")))[:150], flush=True)
    # results are recorded as they come in (a run over all kept changes takes hours and may be cut short)
    json.dump({"seed": int(os.environ.get("VERIF_SEED", "1")), "tier": tier, "complete": False, "selection": pref or "all", "results": out, "caught": sum(1 for v in out.values() if v["exit"] == 1), "total": len(out)},
              open(V + "/seeded/REGRESSION%s%s.json" % ("-partial" if pref else "", "" if os.environ.get("VERIF_SEED", "1") == "1" else "-seed" + os.environ["VERIF_SEED"]), "w"), indent=1)
if not pref:
    json.dump({"seed": int(os.environ.get("VERIF_SEED", "1")), "tier": tier, "complete": True, "results": out, "caught": sum(1 for v in out.values() if v["exit"] == 1), "total": len(out)}, open(V + "/seeded/REGRESSION%s.json" % ("" if os.environ.get("VERIF_SEED", "1") == "1" else "-seed" + os.environ["VERIF_SEED"]), "w"), indent=1)
print("caught %d of %d" % (sum(1 for v in out.values() if v["exit"] == 1), len(out)))
