#!/usr/bin/python3
# Confirm a seeded change and run checks against it.
#   seedtest.py confirm <patch.diff> <demo.rs|demo.sh>     -> builds + suite + demo with/without, in a scratch worktree under /tmp
#   seedtest.py detect  <patch.diff> <Cxx> [<Cyy> ...]      -> git apply to /repo, run ./check for each property, undo
# Never commits anything to /repo.
import json
import os
import re
import shutil
import subprocess
import sys

VERIF = os.path.dirname(os.path.dirname(os.path.abspath(__file__)))
SCRATCH = os.environ.get("SEED_SCRATCH", "/tmp/seedverify")
ENV = dict(os.environ, PATH="/root/.cargo/bin:" + os.environ.get("PATH", ""), CARGO_NET_OFFLINE="true", CARGO_TARGET_DIR=SCRATCH + "/target", CARGO_TERM_COLOR="never")


def sh(cmd, cwd=None, timeout=3000, env=None):
    p = subprocess.run(cmd, cwd=cwd, shell=isinstance(cmd, str), stdout=subprocess.PIPE, stderr=subprocess.STDOUT, text=True, timeout=timeout, env=env or ENV, errors="replace")
    return p.returncode, p.stdout


def ensure_wt():
    wt = SCRATCH + "/wt"
    if not os.path.isdir(wt):
        os.makedirs(SCRATCH, exist_ok=True)
        sh(["git", "-C", "/repo", "worktree", "add", "-q", "--detach", wt, "HEAD"])
    sh(["git", "checkout", "-q", "--detach", subprocess.check_output(["git", "-C", "/repo", "rev-parse", "HEAD"], text=True).strip()], cwd=wt)
    sh("git checkout -- . && git clean -fdq", cwd=wt)
    return wt


def suite(wt):
    rc, out = sh("cargo test --workspace --offline --no-fail-fast 2>&1", cwd=wt)
    passed = sum(int(m) for m in re.findall(r"test result: \w+\. (\d+) passed", out))
    failed = sum(int(m) for m in re.findall(r"test result: \w+\. \d+ passed; (\d+) failed", out))
    ui = re.search(r"(\d+) of (\d+) tests failed", out)
    return passed, failed, (ui.group(0) if ui else "ui ok"), out


def demo(wt, path):
    if path.endswith(".sh"):
        # demo scripts take the checkout to test as their first argument; give each a private target dir
        env = dict(ENV, CARGO_TARGET_DIR=SCRATCH + "/target-demo", SCALE_INFO_REPO=wt)
        rc, out = sh(["bash", path, wt], cwd=wt, env=env)
        return rc == 0, out[-1500:]
    # keep the file name: demonstrations may depend on it (module_path!() of an integration test is its file stem)
    stem = os.path.basename(path)[:-3]
    m = re.search(r'"([a-z0-9_]*demo[a-z0-9_]*)"', open(path).read())
    if m and m.group(1) != stem:
        stem = m.group(1)  # the demonstration names its own file (module path) in an assertion
    dst = os.path.join(wt, "test_suite", "tests", stem + ".rs")
    shutil.copy(path, dst)
    rc, out = sh("cargo test --offline -p scale-info-test-suite --test %s 2>&1" % stem, cwd=wt)
    os.remove(dst)
    return rc == 0, out[-1500:]


def confirm(patch, demo_path):
    wt = ensure_wt()
    res = {}
    ok0, out0 = demo(wt, demo_path)
    res["demo_passes_without_change"] = ok0
    rc, out = sh(["git", "apply", patch], cwd=wt)
    res["patch_applies"] = rc == 0
    if rc != 0:
        res["apply_output"] = out[-600:]
        print(json.dumps(res, indent=1))
        return 1
    p, f, ui, full = suite(wt)
    res["suite_with_change"] = {"passed": p, "failed_targets": f, "ui": ui}
    ok1, out1 = demo(wt, demo_path)
    res["demo_fails_with_change"] = not ok1
    if ok1:
        res["demo_output_with_change"] = out1
    if not ok0:
        res["demo_output_without_change"] = out0
    sh("git checkout -- . && git clean -fdq", cwd=wt)
    res["confirmed"] = bool(ok0 and (not ok1) and p >= 79 and ui in ("2 of 21 tests failed", "ui ok"))
    print(json.dumps(res, indent=1))
    return 0 if res["confirmed"] else 1


def detect(patch, props, tier="quick"):
    rc, out = sh(["git", "-C", "/repo", "status", "--porcelain"])
    if out.strip():
        print("refusing: /repo has local modifications")
        return 2
    rc, out = sh(["git", "-C", "/repo", "apply", patch])
    if rc != 0:
        print("patch does not apply to /repo:", out)
        return 2
    results = {}
    # evidence files describe the unchanged tree: keep them out of reach of runs against a seeded change
    saved = {}
    for p in props:
        ev = os.path.join(VERIF, "evidence", "%s.json" % p)
        if os.path.exists(ev):
            saved[ev] = open(ev).read()
    try:
        for p in props:
            env = dict(os.environ)
            rc, out = sh([os.path.join(VERIF, "check"), p, "--tier", tier], cwd=VERIF, env=env)
            lines = [l for l in out.splitlines() if l.startswith(("VIOLATION", "INCONCLUSIVE", "KNOWN-FINDING")) or l.startswith(p + " ")]
            viol = [l for l in out.splitlines() if "violation [" in l]
            results[p] = {"exit": rc, "lines": lines[:6], "first_violation": (viol[0][:400] if viol else None)}
    finally:
        sh(["git", "-C", "/repo", "checkout", "--", "."])
        sh(["git", "-C", "/repo", "clean", "-fdq", "src", "derive"])
        for ev, txt in saved.items():
            with open(ev, "w") as fh:
                fh.write(txt)
    print(json.dumps(results, indent=1))
    return 0


if __name__ == "__main__":
    if sys.argv[1] == "confirm":
        sys.exit(confirm(os.path.abspath(sys.argv[2]), os.path.abspath(sys.argv[3])))
    elif sys.argv[1] == "detect":
        tier = os.environ.get("VERIF_TIER", "quick")
        sys.exit(detect(os.path.abspath(sys.argv[2]), sys.argv[3:], tier))
