#!/bin/bash
# usage: sweep.sh <tier> <seed>...   -- runs every registered check at each seed, prints one verdict line per run
cd "$(dirname "$0")/.."
tier=$1; shift
for seed in "$@"; do
  for p in C01 C02 C03 C04 C05 C06 C07 C08 C09 C10 C11 C12 C13 C14 C15 C16 C17 C18 C19 C20; do
    out=$(VERIF_SEED=$seed ./check $p --tier $tier 2>&1)
    rc=$?
    echo "seed=$seed rc=$rc $(echo "$out" | grep -E "^$p " | tail -1)"
    if [ $rc -ne 0 ]; then echo "$out" | grep -E "VIOLATION|INCONCLUSIVE|violation \[" | head -5 | cut -c1-600; fi
  done
done
