//! C14: decoding untrusted bytes / JSON never panics, is memory-proportional and canonical.

use crate::args::Args;
use scale::{Decode, Encode};
use scale_info::PortableRegistry;
use serde_json::json;
use vcommon::alloc;
use vcommon::prng::{hash_bytes, Rng};
use vcommon::refcodec::{self, Slot};
use vcommon::reggen::{self, Cfg, Mode};
use vcommon::report::{guard, run_parallel, Report};

pub const MEM_A: usize = 128;
pub const MEM_B: usize = 256 * 1024;

fn hex(b: &[u8]) -> String {
    let mut s: String = b.iter().take(2048).map(|x| format!("{:02x}", x)).collect();
    if b.len() > 2048 {
        s.push_str("...");
    }
    s
}

/// Monitor one SCALE input.
pub fn check_scale(b: &[u8], class: &str, rep: &mut Report, case: &dyn Fn() -> serde_json::Value) {
    let mut input = &b[..];
    alloc::window_start();
    let res = guard(|| PortableRegistry::decode(&mut input));
    let (peak, _) = alloc::window_peak();
    rep.eval(Some(hash_bytes(b)));
    rep.count(&format!("scale_class_{}", class), 1);
    rep.count("scale_bytes_decoded", b.len() as u64);
    let bound = MEM_A * b.len() + MEM_B;
    rep.max("max_peak_heap_bytes", peak as u64);
    rep.max("max_peak_permille_of_bound", (peak as u64 * 1000) / bound as u64);
    if peak > bound {
        rep.violation(
            "C14/memory",
            format!("decode of a {}-byte input held {} bytes of heap at its peak (bound {}*len+{} = {})", b.len(), peak, MEM_A, MEM_B, bound),
            json!({"class": class, "input_hex": hex(b), "len": b.len(), "at": case()}),
        );
    }
    // the same bytes through an input that cannot tell its remaining length
    if b.len() % 8 == 3 || class.starts_with("lying") || class.starts_with("many") || (class == "slot-veclen" && b.len() % 2 == 0) {
        alloc::window_start();
        let r2 = guard(|| PortableRegistry::decode(&mut scale::IoReader(&b[..])));
        let (peak2, _) = alloc::window_peak();
        rep.count("scale_stream_inputs", 1);
        if peak2 > bound {
            rep.violation("C14/memory", format!("decode of a {}-byte streaming input held {} bytes of heap at its peak (bound {})", b.len(), peak2, bound), json!({"class": class, "input_hex": hex(b), "len": b.len(), "stream": true, "at": case()}));
        }
        match (&r2, &res) {
            (Err(p), _) => rep.violation("C14/panic", format!("decode from a streaming input panicked: {}", p), json!({"class": class, "input_hex": hex(b), "stream": true, "at": case()})),
            (Ok(Ok(x)), Ok(Ok(y))) if x != y => rep.violation("C14/stream-input-differs", "the same bytes decode to different registries from a slice and from a streaming input".into(), json!({"class": class, "input_hex": hex(b), "at": case()})),
            (Ok(Ok(_)), Ok(Err(_))) | (Ok(Err(_)), Ok(Ok(_))) => rep.violation("C14/stream-input-differs", "the same bytes are accepted from one kind of input and rejected from the other".into(), json!({"class": class, "input_hex": hex(b), "at": case()})),
            _ => {}
        }
    }
    match res {
        Err(p) => rep.violation("C14/panic", format!("decode panicked: {}", p), json!({"class": class, "input_hex": hex(b), "at": case()})),
        Ok(Err(_)) => rep.count("scale_rejected", 1),
        Ok(Ok(r)) => {
            rep.count("scale_accepted", 1);
            let consumed = b.len() - input.len();
            let again = match guard(|| r.encode()) {
                Ok(x) => x,
                Err(p) => {
                    rep.violation("C14/panic", format!("re-encoding a decoded registry panicked: {}", p), json!({"class": class, "input_hex": hex(b), "at": case()}));
                    return;
                }
            };
            if again != b[..consumed] {
                rep.violation(
                    "C14/non-canonical-accepted",
                    format!("accepted input re-encodes differently (consumed {} bytes, re-encoding has {})", consumed, again.len()),
                    json!({"class": class, "input_hex": hex(b), "reencoded_hex": hex(&again), "at": case()}),
                );
            } else {
                // harness self-consistency: the strict reference decoder must agree on accepted canonical inputs
                match refcodec::decode(&b[..consumed]) {
                    Ok((r2, used)) if r2 == r && used == consumed => {}
                    other => rep.inconclusive(format!("reference decoder disagrees on an accepted canonical input: {:?} (input {})", other.map(|x| x.1), hex(b))),
                }
            }
            check_resolve(&r, rep, &|| json!({"class": class, "input_hex": hex(b), "at": case()}));
            // a consumer that compares what it decoded with a copy through the borrowing entry point (two encodings alive at once)
            if consumed % 16 == 5 {
                let copy = r.clone();
                match guard(|| r.using_encoded(|x| copy.using_encoded(|y| x == y && x == &b[..consumed]))) {
                    Ok(true) => rep.count("nested_using_encoded", 1),
                    Ok(false) => rep.violation("C14/non-canonical-accepted", "accepted input: the decoded registry and its clone encode differently through nested using_encoded calls".into(), json!({"class": class, "input_hex": hex(b), "at": case()})),
                    Err(p) => rep.violation("C14/panic", format!("re-encoding a decoded registry (nested using_encoded of the registry and its clone) panicked: {}", p), json!({"class": class, "input_hex": hex(b), "at": case()})),
                }
            }
        }
    }
}

fn check_resolve(r: &PortableRegistry, rep: &mut Report, case: &dyn Fn() -> serde_json::Value) {
    let n = r.types.len();
    let mut probes: Vec<u32> = vec![n as u32, (n as u32).wrapping_add(1), u32::MAX, u32::MAX - 1];
    for t in r.types.iter().take(50) {
        for (_, id) in reggen::refs_of(&t.ty) {
            probes.push(id);
        }
        probes.push(t.id);
    }
    for i in 0..n.min(50) {
        probes.push(i as u32);
    }
    for id in probes {
        match guard(|| r.resolve(id).map(|t| t as *const _)) {
            Err(p) => {
                rep.violation("C14/resolve-panic", format!("resolve({}) panicked on a registry of {} entries: {}", id, n, p), case());
                return;
            }
            Ok(got) => {
                let want = r.types.get(id as usize).map(|t| &t.ty as *const _);
                if got != want {
                    rep.violation("C14/resolve-wrong", format!("resolve({}) on {} entries answered {}", id, n, if got.is_some() { "some" } else { "none" }), case());
                    return;
                }
                rep.count(if want.is_some() { "resolve_in_range" } else { "resolve_out_of_range_none" }, 1);
            }
        }
    }
}

pub fn check_json(b: &[u8], class: &str, rep: &mut Report, case: &dyn Fn() -> serde_json::Value) {
    alloc::window_start();
    let res = guard(|| serde_json::from_slice::<PortableRegistry>(b));
    let (peak, _) = alloc::window_peak();
    rep.eval(Some(hash_bytes(b) ^ 0x6a73_6f6e));
    rep.count(&format!("json_class_{}", class), 1);
    rep.count("json_bytes_parsed", b.len() as u64);
    let bound = MEM_A * b.len() + MEM_B;
    rep.max("max_peak_heap_bytes_json", peak as u64);
    if peak > bound {
        rep.violation("C14/memory-json", format!("deserialising a {}-byte document held {} bytes at peak (bound {})", b.len(), peak, bound), json!({"class": class, "len": b.len(), "doc_prefix": String::from_utf8_lossy(&b[..b.len().min(600)]), "at": case()}));
    }
    match res {
        Err(p) => rep.violation("C14/panic-json", format!("deserialisation panicked: {}", p), json!({"class": class, "doc": String::from_utf8_lossy(&b[..b.len().min(3000)]), "at": case()})),
        Ok(Err(_)) => rep.count("json_rejected", 1),
        Ok(Ok(r)) => {
            rep.count("json_accepted", 1);
            check_resolve(&r, rep, &|| json!({"class": class, "doc": String::from_utf8_lossy(&b[..b.len().min(3000)]), "at": case()}));
            // an accepted document yields a registry that survives both codecs
            match guard(|| PortableRegistry::decode(&mut &r.encode()[..])) {
                Ok(Ok(r2)) if r2 == r => {}
                _ => rep.violation("C14/json-accepted-unstable", "registry deserialised from JSON does not survive a SCALE round trip".into(), json!({"class": class, "doc": String::from_utf8_lossy(&b[..b.len().min(3000)])})),
            }
        }
    }
}

const HOSTILE_BYTES: [u8; 9] = [0x00, 0x7f, 0x80, 0xfc, 0xfd, 0xfe, 0xff, 0x03, 0x07];

fn hostile_slot_values(rng: &mut Rng) -> Vec<Vec<u8>> {
    vec![
        vec![0x00],                         // 0
        vec![0xfc],                         // 63 (max 1-byte)
        vec![0xfd, 0xff],                   // 16383 (max 2-byte)
        vec![0xfe, 0xff, 0xff, 0xff],       // 2^30-1 (max 4-byte)
        vec![0x03, 0xff, 0xff, 0xff, 0xff], // u32::MAX
        vec![0xfd, 0x00],                   // non-canonical 63 in 2 bytes (largest value that must use 1 byte)
        vec![0xfe, 0xff, 0x00, 0x00],       // non-canonical 16383 in 4 bytes
        vec![0x01, 0x00],                   // non-canonical 0 in 2 bytes
        vec![0x05, 0x00],                   // non-canonical 1 in 2 bytes
        vec![0x02, 0x00, 0x00, 0x00],       // non-canonical 0 in 4 bytes
        vec![0x03, 0x00, 0x00, 0x00, 0x00], // non-canonical 0 in 5 bytes
        vec![0x03, 0xff, 0xff, 0xff, 0x3f], // non-canonical 2^30-1 in 5 bytes
        vec![0x07, 0, 0, 0, 0, 1],          // big-integer header (5 bytes) -> too large for u32
        vec![0xff],                         // big-integer header claiming 67 bytes
        vec![0x13, 0, 0, 0, 0, 0, 0, 0, 1], // 8-byte big integer
        vec![0x02],                         // option/def tag out of range, or 4-byte compact start
        vec![0x08],
        vec![0x0f],
        vec![rng.next_u64() as u8],
    ]
}

fn small_base(rng: &mut Rng) -> PortableRegistry {
    let mode = if rng.flip() { Mode::WellFormed } else { Mode::Arbitrary };
    let cfg = Cfg { mode, max_types: rng.range(1, 6), mid: false, big: false };
    reggen::gen_registry(rng, &cfg)
}

pub fn run(a: &Args) -> Report {
    let seed = a.u("seed", 1);
    let thorough = a.thorough();
    let lightn = a.u("light", 0) as usize; // sanitizer / Miri slices: fewer faults per base (stride factor)
    let light = lightn > 0;
    let deadline = std::time::Instant::now() + std::time::Duration::from_secs_f64(a.f("max-secs", 3600.0));
    let late = move || std::time::Instant::now() > deadline;
    let cfg = a.run_cfg(if thorough { 40_000 } else { 1_500 });
    let mut total = Report::default();

    if cfg.first_case == 0 && !a.has("case") && !light {
        // fixed hostile inputs
        let mut rep = Report::default();
        let none = || json!("fixed");
        // lying nested lengths: huge claimed vector lengths at every nesting level, repeated
        for claim in [[0xfeu8, 0xff, 0xff, 0xff].to_vec(), vec![0x03, 0xff, 0xff, 0xff, 0xff], vec![0xfd, 0xff]] {
            let mut b = Vec::new();
            b.extend_from_slice(&claim); // types
            b.push(0x00); // id
            b.extend_from_slice(&claim); // path segments
            b.extend_from_slice(&claim); // first segment length
            check_scale(&b, "lying-lengths", &mut rep, &none);
            let mut big = b.clone();
            while big.len() < if thorough { 1 << 20 } else { 1 << 16 } {
                big.extend_from_slice(&claim);
            }
            check_scale(&big, "lying-lengths-large", &mut rep, &none);
            // variant -> fields -> docs lying
            let mut v = vec![0x04, 0x00, 0x00, 0x00, 0x01];
            v.extend_from_slice(&claim);
            v.push(0x00);
            v.extend_from_slice(&claim);
            v.push(0x00);
            v.push(0x00);
            v.push(0x00);
            v.extend_from_slice(&claim);
            check_scale(&v, "lying-lengths", &mut rep, &none);
        }
        // many honest tiny elements: worst observed expansion
        for n in [1000usize, 20_000] {
            let mut b = Vec::new();
            refcodec::compact_u32(n as u32, &mut b);
            for i in 0..n {
                refcodec::compact_u32(i as u32, &mut b);
                b.extend_from_slice(&[0x00, 0x00, 0x05, 0x00, 0x00]);
            }
            check_scale(&b, "many-minimal-types", &mut rep, &none);
            let mut d = vec![0x04, 0x00, 0x00, 0x00, 0x05, 0x00];
            refcodec::compact_u32(n as u32, &mut d);
            d.extend(std::iter::repeat(0u8).take(n));
            check_scale(&d, "many-empty-docs", &mut rep, &none);
        }
        // JSON: deep nesting, huge strings, numbers out of range
        let deep = 100_000;
        let docs: Vec<Vec<u8>> = vec![
            "[".repeat(deep).into_bytes(),
            "{\"types\":".repeat(deep).into_bytes(),
            format!("{{\"types\":[{{\"id\":0,\"type\":{{\"def\":{}", "{\"composite\":{\"fields\":[{\"type\":".repeat(20_000)).into_bytes(),
            format!("{{\"types\":[{{\"id\":0,\"type\":{{\"path\":[\"{}\"],\"def\":{{\"primitive\":\"u8\"}}}}}}]}}", "x".repeat(1 << 20)).into_bytes(),
            b"{\"types\":[{\"id\":4294967296,\"type\":{\"def\":{\"primitive\":\"u8\"}}}]}".to_vec(),
            b"{\"types\":[{\"id\":-1,\"type\":{\"def\":{\"primitive\":\"u8\"}}}]}".to_vec(),
            b"{\"types\":[{\"id\":1.5,\"type\":{\"def\":{\"primitive\":\"u8\"}}}]}".to_vec(),
            b"{\"types\":[{\"id\":1e400,\"type\":{\"def\":{\"primitive\":\"u8\"}}}]}".to_vec(),
            b"{\"types\":[{\"id\":0,\"type\":{\"def\":{\"array\":{\"len\":4294967296,\"type\":0}}}}]}".to_vec(),
            b"{\"types\":[{\"id\":0,\"type\":{\"def\":{\"variant\":{\"variants\":[{\"name\":\"A\",\"index\":256}]}}}}]}".to_vec(),
            b"{\"types\":[{\"id\":0,\"type\":{\"def\":{\"primitive\":\"u7\"}}}]}".to_vec(),
            b"{\"types\":[{\"id\":0,\"type\":{\"def\":{\"primitive\":\"u8\",\"compact\":{\"type\":0}}}}]}".to_vec(),
            b"{\"types\":[{\"id\":0,\"type\":{\"def\":{}}}]}".to_vec(),
            b"{\"types\":[{\"id\":0,\"id\":1,\"type\":{\"def\":{\"primitive\":\"u8\"}}}]}".to_vec(),
            b"{\"types\":[{\"id\":0,\"type\":{\"def\":{\"primitive\":\"u8\"},\"path\":[\"\\ud800\"]}}]}".to_vec(),
            b"{\"types\":[{\"id\":0,\"type\":{\"def\":{\"primitive\":\"u8\"},\"path\":[\"\xff\xfe\"]}}]}".to_vec(),
            "{\"types\":[{\"id\":0,\"type\":{\"def\":{\"primitive\":\"é8\"}}}]}".as_bytes().to_vec(),
            "{\"types\":[{\"id\":0,\"type\":{\"def\":{\"primitive\":\"€\"}}}]}".as_bytes().to_vec(),
            b"{\"types\":[{\"id\":0,\"type\":{\"def\":{\"primitive\":\"\\u00e98\"}}}]}".to_vec(),
            "{\"types\":[{\"id\":0,\"type\":{\"def\":{\"séquence\":{\"type\":0}}}}]}".as_bytes().to_vec(),
            b"{\"types\":[{\"id\":0,\"type\":{\"def\":{\"primitive\":\"\"}}}]}".to_vec(),
            b"{\"types\":null}".to_vec(),
            b"null".to_vec(),
            b"".to_vec(),
            b"{\"types\":[{\"id\":0,\"type\":{\"def\":{\"tuple\":[0,1,\"2\"]}}}]}".to_vec(),
        ];
        for d in &docs {
            check_json(d, "fixed-hostile", &mut rep, &none);
        }
        total.merge(rep);
    }

    let body = run_parallel(&cfg, |i, rep| {
        let mut rng = Rng::derive(seed ^ 0x14, i);
        let base = small_base(&mut rng);
        let enc = refcodec::encode_with_map(&base);
        let b = &enc.out;
        let case = |what: String| move || json!({"case": i, "seed": seed, "fault": what});
        rep.count("base_inputs", 1);
        rep.max("max_base_len", b.len() as u64);
        if i < 3 {
            rep.sample(|| json!({"case": i, "base_hex": hex(b), "base_len": b.len(), "slots": enc.map.len()}));
        }
        check_scale(b, "valid", rep, &case("none".into()));
        let stride = if light { 7 * lightn } else { 1 };
        // (a) every truncation
        for cut in (0..b.len()).step_by(stride) {
            check_scale(&b[..cut], "truncation", rep, &case(format!("truncate@{}", cut)));
        }
        // (b) every single-bit flip
        for pos in (0..b.len()).step_by(stride) {
            for bit in 0..8 {
                let mut m = b.clone();
                m[pos] ^= 1 << bit;
                check_scale(&m, "bitflip", rep, &case(format!("flip@{}.{}", pos, bit)));
            }
        }
        if !light {
            rep.count("bases_with_all_truncations_and_bitflips", 1);
        }
        if late() {
            rep.count("bases_cut_short_by_time_budget", 1);
            return;
        }
        // (c) insert / delete / duplicate at every position
        let step_c = if light { 11 * lightn } else if b.len() > 400 { 3 } else { 1 };
        for pos in (0..=b.len()).step_by(step_c) {
            for v in HOSTILE_BYTES.iter().copied().chain(std::iter::once(rng.next_u64() as u8)) {
                let mut m = b.clone();
                m.insert(pos, v);
                check_scale(&m, "insert", rep, &case(format!("insert {:#x}@{}", v, pos)));
            }
            if pos < b.len() {
                let mut m = b.clone();
                m.remove(pos);
                check_scale(&m, "delete", rep, &case(format!("delete@{}", pos)));
                let mut m = b.clone();
                m.insert(pos, b[pos]);
                check_scale(&m, "duplicate", rep, &case(format!("dup@{}", pos)));
            }
        }
        if late() {
            rep.count("bases_cut_short_by_time_budget", 1);
            return;
        }
        // (d) every slot overwritten with hostile encodings
        let hv = hostile_slot_values(&mut rng);
        for (si, s) in enc.map.iter().enumerate().step_by(if light { 5 * lightn } else { 1 }) {
            for v in &hv {
                let mut m = Vec::with_capacity(b.len() + 8);
                m.extend_from_slice(&b[..s.off]);
                m.extend_from_slice(v);
                m.extend_from_slice(&b[s.off + s.len..]);
                let cls = match s.slot {
                    Slot::VecLen => "slot-veclen",
                    Slot::StrLen => "slot-strlen",
                    Slot::Id => "slot-id",
                    Slot::OptTag => "slot-option",
                    Slot::DefTag => "slot-deftag",
                    Slot::PrimTag => "slot-primtag",
                    Slot::Index => "slot-index",
                    Slot::ArrayLen => "slot-arraylen",
                };
                check_scale(&m, cls, rep, &case(format!("slot#{} {:?} <- {}", si, s.slot, hex(v))));
            }
        }
        // (e) splices with another encoding
        let other = refcodec::encode(&small_base(&mut rng));
        for _ in 0..if light { 2 } else { 12 } {
            let x = rng.below(b.len() + 1);
            let y = rng.below(other.len() + 1);
            let mut m = b[..x].to_vec();
            m.extend_from_slice(&other[y..]);
            check_scale(&m, "splice", rep, &case(format!("splice base[..{}]+other[{}..]", x, y)));
        }
        // (f) pure random bytes
        for _ in 0..if light { 2 } else { 10 } {
            let n = rng.below(64);
            let m = rng.bytes(n);
            check_scale(&m, "random", rep, &case("random bytes".into()));
        }
        // (h) sequences of 2..4 faults
        for _ in 0..if light { 3 } else { 40 } {
            let mut m = b.clone();
            let k = rng.range(2, 4);
            let mut desc = String::new();
            for _ in 0..k {
                if m.is_empty() {
                    break;
                }
                match rng.below(5) {
                    0 => {
                        let p = rng.below(m.len());
                        m[p] ^= 1 << rng.below(8);
                        desc.push_str(&format!("flip@{};", p));
                    }
                    1 => {
                        let p = rng.below(m.len() + 1);
                        let v = *rng.pick(&HOSTILE_BYTES);
                        m.insert(p, v);
                        desc.push_str(&format!("ins{:#x}@{};", v, p));
                    }
                    2 => {
                        let p = rng.below(m.len());
                        m.remove(p);
                        desc.push_str(&format!("del@{};", p));
                    }
                    3 => {
                        let p = rng.below(m.len());
                        m.truncate(p);
                        desc.push_str(&format!("trunc@{};", p));
                    }
                    _ => {
                        let s = rng.pick(&enc.map);
                        if s.off + s.len <= m.len() {
                            let v = rng.pick(&hv).clone();
                            m.splice(s.off..s.off + s.len, v);
                            desc.push_str(&format!("slot@{};", s.off));
                        }
                    }
                }
            }
            check_scale(&m, "fault-sequence", rep, &case(desc));
        }

        if late() {
            rep.count("bases_cut_short_by_time_budget", 1);
            return;
        }
        // JSON faults on the same base
        let doc = serde_json::to_vec(&base).expect("serialise base");
        check_json(&doc, "valid", rep, &case("none".into()));
        let jstride = if light { 13 * lightn } else if doc.len() > 600 { 5 } else { 1 };
        for cut in (0..doc.len()).step_by(jstride) {
            check_json(&doc[..cut], "truncation", rep, &case(format!("json truncate@{}", cut)));
        }
        for _ in 0..if light { 5 } else { 60 } {
            let mut m = doc.clone();
            let p = rng.below(m.len());
            match rng.below(6) {
                0 => m[p] ^= 1 << rng.below(8),
                1 => {
                    m.remove(p);
                }
                2 => m.insert(p, *rng.pick(b"{}[]\",:0-e.\\\x00\xff ")),
                3 => m[p] = *rng.pick(b"{}[]\",:0-e.\\\x00\xff "),
                4 => {
                    let q = rng.below(m.len());
                    m.swap(p, q);
                }
                _ => {
                    let q = (p + rng.below(12)).min(m.len());
                    m.drain(p..q);
                }
            }
            check_json(&m, "byte-fault", rep, &case(format!("json byte fault near {}", p)));
        }
        // entries with their members in the other order ("type" before "id"), alone and combined with a broken body
        if let Ok(text) = String::from_utf8(doc.clone()) {
            let swapped = text.replace("{\"id\":", "{\"type\":{\"def\":{\"primitive\":\"nosuch\"}},\"id\":");
            if swapped != text {
                check_json(swapped.as_bytes(), "struct-key-order", rep, &case("json: broken type member before id (duplicate type key)".into()));
            }
            let no_id = text.replace("\"id\":", "\"ID\":").replace("\"primitive\":\"", "\"primitive\":\"x");
            check_json(no_id.as_bytes(), "struct-double", rep, &case("json: id misspelt and primitive names broken".into()));
        }
        // structural faults through serde_json::Value
        if let Ok(v) = serde_json::from_slice::<serde_json::Value>(&doc) {
            for _ in 0..if light { 4 } else { 40 } {
                let mut w = v.clone();
                let what = json_fault(&mut w, &mut rng);
                let m = serde_json::to_vec(&w).unwrap();
                check_json(&m, &format!("struct-{}", what), rep, &case(format!("json structural {}", what)));
                // two structural faults in one document
                if rng.chance(1, 2) {
                    let what2 = json_fault(&mut w, &mut rng);
                    let m = serde_json::to_vec(&w).unwrap();
                    check_json(&m, "struct-double", rep, &case(format!("json structural {} + {}", what, what2)));
                }
            }
        }
    });
    total.merge(body);
    total
}

/// Apply one structural fault somewhere in a JSON value.
fn json_fault(v: &mut serde_json::Value, rng: &mut Rng) -> &'static str {
    use serde_json::Value;
    fn count(v: &Value) -> usize {
        1 + match v {
            Value::Object(m) => m.values().map(count).sum::<usize>(),
            Value::Array(a) => a.iter().map(count).sum::<usize>(),
            _ => 0,
        }
    }
    fn nth<'a>(v: &'a mut Value, k: &mut usize) -> Option<&'a mut Value> {
        if *k == 0 {
            return Some(v);
        }
        *k -= 1;
        match v {
            Value::Object(m) => {
                for (_, x) in m.iter_mut() {
                    if let Some(r) = nth(x, k) {
                        return Some(r);
                    }
                }
                None
            }
            Value::Array(a) => {
                for x in a.iter_mut() {
                    if let Some(r) = nth(x, k) {
                        return Some(r);
                    }
                }
                None
            }
            _ => None,
        }
    }
    let total = count(v);
    let mut k = rng.below(total);
    let node: &mut Value = nth(v, &mut k).expect("node index in range");
    match rng.below(11) {
        9 | 10 => {
            // hostile replacement strings: multi-byte first characters, look-alike digits, near misses of the tag names
            let pool = ["é8", "ü128", "€", "\u{e9}8", "", "u", "U8", "u８", "u8 ", " u8", "i256x", "Bool", "𝓊8", "u\u{0}8", "compösite", "séquence"];
            let s = *rng.pick(&pool);
            if let Value::Object(m) = node {
                if m.len() == 1 && rng.flip() {
                    let k = m.keys().next().cloned().unwrap();
                    let x = m.remove(&k).unwrap();
                    m.insert(s.to_string(), x);
                    return "hostile-key";
                }
            }
            *node = Value::String(s.to_string());
            "hostile-string"
        }
        0 => {
            if let Value::Object(m) = node {
                if let Some(k) = m.keys().next().cloned() {
                    m.remove(&k);
                    return "key-delete";
                }
            }
            *node = Value::Null;
            "to-null"
        }
        1 => {
            if let Value::Object(m) = node {
                m.insert("unknown_key".into(), json!(1));
                return "unknown-key";
            }
            *node = json!({"unknown": 1});
            "to-object"
        }
        2 => {
            *node = match node {
                Value::Number(n) => Value::String(n.to_string()),
                Value::String(s) => s.parse::<u32>().map(|x| json!(x)).unwrap_or(json!(7)),
                Value::Array(_) => json!({}),
                Value::Object(_) => json!([]),
                _ => json!(true),
            };
            "type-swap"
        }
        3 => {
            *node = json!(4294967296u64);
            "number-too-big"
        }
        4 => {
            *node = json!(-1);
            "negative"
        }
        5 => {
            *node = json!(0.5);
            "fraction"
        }
        6 => {
            if let Value::Object(m) = node {
                if m.len() == 1 {
                    let k = m.keys().next().cloned().unwrap();
                    let x = m.remove(&k).unwrap();
                    m.insert("nosuchtag".into(), x);
                    return "unknown-tag";
                }
            }
            *node = json!("nosuch");
            "unknown-string"
        }
        7 => {
            if let Value::Array(a) = node {
                if !a.is_empty() {
                    let x = a[0].clone();
                    a.push(x);
                    return "array-dup";
                }
            }
            *node = json!([[]]);
            "nested-array"
        }
        _ => {
            if let Value::Object(m) = node {
                if let Some(k) = m.keys().next().cloned() {
                    let x = m.remove(&k).unwrap();
                    m.insert(k.to_uppercase(), x);
                    return "key-case";
                }
            }
            *node = json!(u64::MAX);
            "u64-max"
        }
    }
}
