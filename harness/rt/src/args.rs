use std::collections::BTreeMap;

#[derive(Clone, Debug)]
pub struct Args {
    pub cmd: String,
    pub kv: BTreeMap<String, String>,
}

impl Args {
    pub fn parse() -> Args {
        let mut it = std::env::args().skip(1);
        let cmd = it.next().unwrap_or_else(|| "help".into());
        let mut kv = BTreeMap::new();
        while let Some(a) = it.next() {
            if let Some(k) = a.strip_prefix("--") {
                if let Some((k, v)) = k.split_once('=') {
                    kv.insert(k.to_string(), v.to_string());
                } else {
                    let v = it.next().unwrap_or_else(|| "1".into());
                    kv.insert(k.to_string(), v);
                }
            }
        }
        Args { cmd, kv }
    }
    pub fn s(&self, k: &str, d: &str) -> String {
        self.kv.get(k).cloned().unwrap_or_else(|| d.to_string())
    }
    pub fn u(&self, k: &str, d: u64) -> u64 {
        self.kv.get(k).map(|v| v.parse().expect("numeric arg")).unwrap_or(d)
    }
    pub fn f(&self, k: &str, d: f64) -> f64 {
        self.kv.get(k).map(|v| v.parse().expect("float arg")).unwrap_or(d)
    }
    pub fn has(&self, k: &str) -> bool {
        self.kv.contains_key(k)
    }
    pub fn prop(&self) -> String {
        self.s("prop", "")
    }
    pub fn thorough(&self) -> bool {
        self.s("tier", "quick") == "thorough"
    }
    pub fn run_cfg(&self, default_cases: u64) -> vcommon::report::RunCfg {
        let only = self.kv.get("case").map(|v| v.parse::<u64>().expect("case"));
        vcommon::report::RunCfg {
            threads: if only.is_some() { 1 } else { self.u("threads", 16) as usize },
            cases: if only.is_some() { 1 } else { self.u("cases", default_cases) },
            first_case: only.unwrap_or(self.u("first", 0)),
            max_secs: self.f("max-secs", 3600.0),
            progress: self.kv.get("progress").cloned(),
        }
    }
}
