//! C12: PortableRegistryBuilder and Interner against a duplicate-free list model (R6).
//! Also exports the builder history used for C01 (density / closure of `finish()`).

use crate::args::Args;
use scale_info::interner::Interner;
use scale_info::{PortableRegistry, PortableRegistryBuilder};
use serde_json::json;
use vcommon::prng::{hash_bytes, Rng};
use vcommon::reggen::{self, Cfg, IdGen, Mode, PType, Shape};
use vcommon::report::{guard, run_parallel, Report};
use vcommon::wf;

fn sym_id<T>(s: scale_info::interner::Symbol<'_, T>) -> u32 {
    s.into_untracked().id
}

/// One interner history over values produced by `mk(k)` for k in 0..alphabet.
fn interner_case<V: Ord + Clone + std::fmt::Debug>(rng: &mut Rng, rep: &mut Report, mk: &dyn Fn(usize) -> V, alphabet: usize, ops: usize, case_id: u64) -> u64 {
    let mut it: Interner<V> = if rng.flip() { Interner::new() } else { Default::default() };
    let mut model: Vec<V> = Vec::new();
    // a larger foreign interner, to obtain symbols that are out of range for `it`
    let mut foreign: Interner<V> = Interner::new();
    for k in 0..alphabet + 3 {
        foreign.intern_or_get(mk(k));
    }
    let mut trace: Vec<String> = Vec::new();
    let mut h: Vec<u8> = Vec::new();
    let mut bad: Option<(String, String)> = None;
    for _ in 0..ops {
        let k = rng.below(alphabet);
        let v = mk(k);
        let op = rng.below(10);
        h.push(op as u8);
        h.push(k as u8);
        match op {
            0..=3 => {
                trace.push(format!("intern({})", k));
                let pos = model.iter().position(|x| x == &v);
                let want = (pos.is_none(), pos.unwrap_or(model.len()) as u32);
                let got = guard(|| {
                    let (ins, s) = it.intern_or_get(v.clone());
                    (ins, sym_id(s))
                });
                if pos.is_none() {
                    model.push(v);
                    rep.count("intern_new", 1);
                } else {
                    rep.count("intern_duplicate", 1);
                }
                match got {
                    Ok(g) if g == want => {}
                    Ok(g) => bad = Some(("C12/intern_or_get".into(), format!("intern_or_get returned {:?}, list model says {:?}", g, want))),
                    Err(p) => bad = Some(("C12/panic".into(), format!("intern_or_get panicked: {}", p))),
                }
            }
            4 | 5 => {
                trace.push(format!("get({})", k));
                let want = model.iter().position(|x| x == &v).map(|p| p as u32);
                match guard(|| it.get(&v).map(sym_id)) {
                    Ok(g) if g == want => {
                        rep.count(if want.is_some() { "get_hit" } else { "get_miss" }, 1);
                        // resolve through the symbol we just obtained
                        if let Some(s) = it.get(&v) {
                            match guard(|| it.resolve(s).cloned()) {
                                Ok(Some(x)) if x == v => rep.count("resolve_own_symbol", 1),
                                other => bad = Some(("C12/resolve".into(), format!("resolve(get(v)) gave {:?} instead of v", other))),
                            }
                        }
                    }
                    Ok(g) => bad = Some(("C12/get".into(), format!("get returned {:?}, list model says {:?}", g, want))),
                    Err(p) => bad = Some(("C12/panic".into(), format!("get panicked: {}", p))),
                }
            }
            6 | 7 => {
                // resolve with a symbol of the foreign interner: index j in 0..alphabet+3
                let j = rng.below(alphabet + 3);
                trace.push(format!("resolve(foreign#{})", j));
                let idx = sym_id(foreign.get(&mk(j)).expect("foreign has it")) as usize;
                let s = foreign.get(&mk(j)).expect("foreign has it");
                let want = model.get(idx).cloned();
                match guard(|| it.resolve(s).cloned()) {
                    Ok(g) if g == want => rep.count(if want.is_some() { "resolve_in_range" } else { "resolve_out_of_range" }, 1),
                    Ok(g) => bad = Some(("C12/resolve".into(), format!("resolve(#{}) gave {:?}, list model says {:?}", idx, g, want))),
                    Err(p) => bad = Some(("C12/panic".into(), format!("resolve panicked: {}", p))),
                }
            }
            _ => {
                trace.push("elements()".into());
                if it.elements() != &model[..] {
                    bad = Some(("C12/elements".into(), format!("elements() = {:?}, list model = {:?}", it.elements(), model)));
                }
                rep.count("elements_compared", 1);
            }
        }
        #[cfg(have_hooks)]
        {
            if let Err(e) = it.verif_invariants() {
                bad = Some(("C12/interner-invariant".into(), e));
            }
            rep.count("hook_invariant_checks", 1);
        }
        if let Some((k, m)) = bad.take() {
            rep.violation(&k, m, json!({"case": case_id, "trace": trace}));
            break;
        }
    }
    if it.elements() != &model[..] {
        rep.violation("C12/elements", "final elements() differ from the list model".into(), json!({"case": case_id, "trace": trace}));
    }
    rep.max("max_table_len", model.len() as u64);
    if case_id < 2 {
        rep.sample(|| json!({"case": case_id, "kind": "interner", "alphabet": alphabet, "trace": trace.iter().take(30).collect::<Vec<_>>()}));
    }
    hash_bytes(&h)
}

thread_local! {
    /// comparisons left until `FaultyKey::cmp` panics (0 = disarmed)
    static CMP_FUSE: std::cell::Cell<u32> = const { std::cell::Cell::new(0) };
}

/// An element type whose comparison can be made to fail (failpoint): the interner calls `Ord::cmp` of its elements,
/// and a caller that catches the unwind goes on using the table.
#[derive(Clone, Debug, PartialEq, Eq)]
struct FaultyKey(u8);

impl PartialOrd for FaultyKey {
    fn partial_cmp(&self, o: &Self) -> Option<std::cmp::Ordering> {
        Some(self.cmp(o))
    }
}

impl Ord for FaultyKey {
    fn cmp(&self, o: &Self) -> std::cmp::Ordering {
        let left = CMP_FUSE.with(|f| f.get());
        if left > 0 {
            CMP_FUSE.with(|f| f.set(left - 1));
            if left == 1 {
                panic!("injected fault: comparison fails");
            }
        }
        self.0.cmp(&o.0)
    }
}

/// Interner history with injected comparison failures: an operation that unwinds either happened or did not
/// (the value is in `elements()` exactly if `get` finds it), and the table goes on behaving as a duplicate-free list.
fn interner_fault_case(rng: &mut Rng, rep: &mut Report, case_id: u64) -> u64 {
    let alphabet = rng.range(3, 24);
    let mut it: Interner<FaultyKey> = Interner::new();
    let mut model: Vec<FaultyKey> = Vec::new();
    let mut trace: Vec<String> = Vec::new();
    let mut h: Vec<u8> = Vec::new();
    let ops = rng.range(5, 120);
    for _ in 0..ops {
        let v = FaultyKey((rng.below(alphabet) as u8).wrapping_mul(37));
        let arm = if rng.chance(1, 4) { rng.range(1, 6) as u32 } else { 0 };
        h.push(v.0);
        h.push(arm as u8);
        trace.push(format!("intern({}){}", v.0, if arm > 0 { format!(" with the comparison failing at call {}", arm) } else { String::new() }));
        CMP_FUSE.with(|f| f.set(arm));
        let got = guard(|| {
            let (ins, s) = it.intern_or_get(v.clone());
            (ins, sym_id(s))
        });
        CMP_FUSE.with(|f| f.set(0));
        let pos = model.iter().position(|x| x == &v);
        match got {
            Ok(g) => {
                let want = (pos.is_none(), pos.unwrap_or(model.len()) as u32);
                if pos.is_none() {
                    model.push(v.clone());
                }
                if g != want {
                    rep.violation("C12/intern_or_get", format!("intern_or_get returned {:?}, list model says {:?}", g, want), json!({"case": case_id, "trace": trace}));
                    return hash_bytes(&h);
                }
            }
            Err(_) => {
                rep.count("interner_ops_aborted_by_a_failing_comparison", 1);
                // all or nothing: if the value made it into the listing, the model takes it too
                if it.elements().len() == model.len() + 1 && it.elements().last() == Some(&v) && pos.is_none() {
                    model.push(v.clone());
                }
            }
        }
        let listed = model.iter().position(|x| x == &v).map(|p| p as u32);
        let found = guard(|| it.get(&v).map(sym_id));
        if it.elements() != &model[..] || found.as_ref().ok() != Some(&listed) {
            rep.violation(
                "C12/get",
                format!("after {} the listing has {} values (model {}), get({}) answers {:?} while the listing says {:?}", trace.last().unwrap(), it.elements().len(), model.len(), v.0, found, listed),
                json!({"case": case_id, "trace": trace}),
            );
            return hash_bytes(&h);
        }
        #[cfg(have_hooks)]
        {
            if let Err(e) = it.verif_invariants() {
                rep.violation("C12/interner-invariant", e, json!({"case": case_id, "trace": trace}));
                return hash_bytes(&h);
            }
        }
    }
    rep.count("interner_fault_histories", 1);
    hash_bytes(&h)
}

/// A pool of portable types for builder histories; `self_ref` slots are filled at use time.
fn type_pool(rng: &mut Rng, n: usize) -> Vec<PType> {
    let cfg = Cfg::small(Mode::Arbitrary);
    let ids = IdGen { mode: Mode::WellFormed, shape: Shape::Any, n: 6 };
    let mut pool: Vec<PType> = Vec::new();
    while pool.len() < n {
        let i = pool.len();
        // half of the pool are single-edit neighbours of earlier members (one doc string, one name, one id,
        // one index ... differs): values that are unequal but nearly equal must still get their own index
        if !pool.is_empty() && rng.flip() {
            let base = rng.pick(&pool).clone();
            let reg = scale_info::PortableRegistry { types: vec![scale_info::PortableType::new(0, base)] };
            let mut found = None;
            for _ in 0..20 {
                if let Some((r2, _)) = reggen::mutate(rng, &reg) {
                    if r2.types.len() == 1 && r2.types[0].id == 0 && !pool.contains(&r2.types[0].ty) {
                        found = Some(r2.types[0].ty.clone());
                        break;
                    }
                }
            }
            if let Some(t) = found {
                pool.push(t);
                continue;
            }
        }
        // a pool member whose path differs from an earlier one only in where the segments are cut (same text when joined with "::")
        if !pool.is_empty() && i % 5 == 4 {
            let mut t = rng.pick(&pool).clone();
            let segs = t.path.segments.clone();
            let new_segs: Vec<String> = if segs.len() >= 2 {
                let k = (i / 5) % (segs.len() - 1);
                let mut v = segs[..k].to_vec();
                v.push(format!("{}::{}", segs[k], segs[k + 1]));
                v.extend_from_slice(&segs[k + 2..]);
                v
            } else if segs.len() == 1 && segs[0].contains("::") {
                segs[0].splitn(2, "::").map(|x| x.to_string()).collect()
            } else {
                vec!["my_crate::module".to_string(), "Marker".to_string()]
            };
            t.path = scale_info::Path::from_segments_unchecked(new_segs);
            if !pool.contains(&t) {
                pool.push(t);
                continue;
            }
        }
        let force = if rng.chance(1, 3) { Some(rng.below(2)) } else { None };
        pool.push(reggen::gen_type(rng, &cfg, &ids, i, force));
    }
    pool
}

/// One builder history. Returns hash of the op sequence. `prop` selects which oracles report.
pub fn builder_case(rng: &mut Rng, rep: &mut Report, prop: &str, case_id: u64) -> u64 {
    // mostly tiny alphabets (duplicates arrive after unrelated insertions); sometimes tables that grow past 16 / 32 entries
    let alphabet = if rng.chance(1, 6) { rng.range(17, 40) } else { rng.range(2, 8) };
    let pool = type_pool(rng, alphabet);
    let disciplined = rng.flip();
    let mut b = if rng.flip() { PortableRegistryBuilder::new() } else { PortableRegistryBuilder::default() };
    let mut model: Vec<PType> = Vec::new();
    let ops = if alphabet > 8 { rng.range(20, 120) } else { rng.range(1, 60) };
    let mut trace: Vec<String> = Vec::new();
    let mut h: Vec<u8> = Vec::new();
    let c12 = prop == "C12";
    macro_rules! fail {
        ($k:expr, $m:expr) => {{
            rep.violation($k, $m, json!({"case": case_id, "trace": trace, "disciplined": disciplined}));
            return hash_bytes(&h);
        }};
    }
    for _ in 0..ops {
        let op = rng.below(12);
        h.push(op as u8);
        match op {
            0..=4 => {
                // register a pool type; in disciplined histories rewrite its references to ids that exist (or to itself)
                let k = rng.below(alphabet);
                h.push(k as u8);
                let mut ty = pool[k].clone();
                let announced = match guard(|| b.next_type_id()) {
                    Ok(x) => x,
                    Err(p) => fail!("C12/panic", format!("next_type_id panicked: {}", p)),
                };
                if c12 && announced as usize != model.len() {
                    fail!("C12/next_type_id", format!("next_type_id() = {} with {} values stored", announced, model.len()));
                }
                if disciplined {
                    for r in reggen::refs_mut(&mut ty) {
                        // only ids handed out earlier, or the announced one (self reference)
                        let limit = model.len() as u32;
                        *r = if limit == 0 || rng.chance(1, 4) { announced } else { rng.below(limit as usize) as u32 };
                    }
                }
                let self_ref = reggen::refs_of(&ty).iter().any(|(_, r)| *r == announced);
                trace.push(format!("register(pool#{}{})", k, if self_ref { ",self-ref" } else { "" }));
                let pos = model.iter().position(|x| x == &ty);
                let want = pos.unwrap_or(model.len()) as u32;
                let got = match guard(|| b.register_type(ty.clone())) {
                    Ok(x) => x,
                    Err(p) => fail!("C12/panic", format!("register_type panicked: {}", p)),
                };
                if pos.is_none() {
                    model.push(ty);
                    rep.count("register_new", 1);
                    if self_ref {
                        rep.count("register_self_reference", 1);
                    }
                    if c12 && got != announced {
                        fail!("C12/next_type_id", format!("a new value received id {} but next_type_id announced {}", got, announced));
                    }
                } else {
                    rep.count("register_duplicate", 1);
                }
                if c12 && got != want {
                    fail!("C12/register_type", format!("register_type returned {}, list model says {}", got, want));
                }
            }
            5 | 6 => {
                let id = match rng.below(4) {
                    0 => model.len() as u32,
                    1 => model.len() as u32 + 1,
                    2 => u32::MAX,
                    _ => rng.below(model.len().max(1)) as u32,
                };
                trace.push(format!("get({})", id));
                let want = model.get(id as usize);
                match guard(|| b.get(id).cloned()) {
                    Ok(g) => {
                        if c12 && g.as_ref() != want {
                            fail!("C12/builder-get", format!("get({}) differs from the list model", id));
                        }
                        rep.count(if want.is_some() { "builder_get_hit" } else { "builder_get_out_of_range" }, 1);
                    }
                    Err(p) => fail!("C12/panic", format!("get panicked: {}", p)),
                }
            }
            7 => {
                trace.push("next_type_id()".into());
                match guard(|| b.next_type_id()) {
                    Ok(x) => {
                        if c12 && x as usize != model.len() {
                            fail!("C12/next_type_id", format!("next_type_id() = {} with {} values stored", x, model.len()));
                        }
                    }
                    Err(p) => fail!("C12/panic", format!("next_type_id panicked: {}", p)),
                }
                rep.count("next_type_id_calls", 1);
            }
            _ => {
                trace.push("finish()".into());
                let reg: PortableRegistry = match guard(|| b.finish()) {
                    Ok(r) => r,
                    Err(p) => fail!(if c12 { "C12/panic" } else { "C01/panic" }, format!("finish panicked: {}", p)),
                };
                rep.count("finish_calls", 1);
                if c12 {
                    if reg.types.len() != model.len() || reg.types.iter().zip(model.iter()).enumerate().any(|(i, (t, m))| t.id as usize != i || &t.ty != m) {
                        fail!("C12/finish", "finish() does not list the values at their indices".to_string());
                    }
                } else {
                    match wf::check(&reg, disciplined) {
                        Ok(st) => {
                            rep.count("builder_registries_checked", 1);
                            rep.count(if disciplined { "builder_disciplined_closed_checked" } else { "builder_density_only_checked" }, 1);
                            rep.count("builder_refs_walked", st.refs.iter().sum());
                        }
                        Err(e) => fail!(if e.contains("mentions") { "C01/builder-not-closed" } else { "C01/builder-not-dense" }, e),
                    }
                }
            }
        }
        #[cfg(have_hooks)]
        {
            if let Err(e) = b.verif_invariants() {
                fail!(if c12 { "C12/interner-invariant" } else { "C01/interner-invariant" }, e);
            }
            rep.count("hook_invariant_checks", 1);
        }
    }
    rep.max("max_table_len", model.len() as u64);
    if case_id % 1000 == 1 {
        rep.sample(|| json!({"case": case_id, "kind": "builder", "disciplined": disciplined, "alphabet": alphabet, "trace": trace.iter().take(30).collect::<Vec<_>>()}));
    }
    hash_bytes(&h)
}

pub fn run(a: &Args) -> Report {
    let seed = a.u("seed", 1);
    let thorough = a.thorough();
    let cfg = a.run_cfg(if thorough { 5_000_000 } else { 200_000 });
    let ops_max = a.u("ops", 200) as usize;
    let prop = a.prop();
    run_parallel(&cfg, |i, rep| {
        let mut rng = Rng::derive(seed ^ 0x12, i);
        if prop == "C01" {
            rep.count("builder_histories", 1);
            let h = builder_case(&mut rng, rep, "C01", i);
            rep.eval(Some(h));
            return;
        }
        let h = match i % 4 {
            0 if i % 16 == 8 => interner_fault_case(&mut rng, rep, i),
            0 => {
                let alphabet = rng.range(2, 8);
                let ops = rng.range(1, ops_max);
                rep.count("interner_u8_histories", 1);
                interner_case::<u8>(&mut rng, rep, &|k| (k as u8).wrapping_mul(37), alphabet, ops, i)
            }
            1 => {
                let alphabet = rng.range(2, 8);
                let ops = rng.range(1, ops_max);
                rep.count("interner_string_histories", 1);
                // values that compare in an order different from their creation order
                interner_case::<String>(&mut rng, rep, &|k| format!("{}{}", ["z", "a", "m", "", "é", "B"][k % 6], k / 2), alphabet, ops, i)
            }
            _ => {
                rep.count("builder_histories", 1);
                builder_case(&mut rng, rep, "C12", i)
            }
        };
        rep.eval(Some(h));
    })
}
