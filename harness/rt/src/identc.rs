//! C18: paths are non-empty sequences of valid identifiers.

use crate::args::Args;
use scale_info::{IntoPortable, Path, PathError, Registry};
use serde_json::json;
use vcommon::ident::is_ident;
use vcommon::prng::{hash_bytes, Rng};
use vcommon::report::{guard, run_parallel, Report, RunCfg};

const ALPHA: [&str; 11] = ["a", "Z", "_", "7", "r", "#", ":", " ", "-", "é", "²"];
const NA: u64 = 11;

fn leak(s: String) -> &'static str {
    Box::leak(s.into_boxed_str())
}

fn check_segments(segs: &[&'static str], rep: &mut Report, what: &str) {
    // the same segments through iterators with an exact, an inexact and no size hint
    let kind = (segs.len() + segs.first().map_or(0, |s| s.len())) % 3;
    let res = match kind {
        0 => guard(|| Path::from_segments(segs.iter().copied())),
        1 => guard(|| Path::from_segments(segs.iter().copied().filter(|_| true))),
        _ => guard(|| {
            let mut it = segs.iter().copied();
            Path::from_segments(std::iter::from_fn(move || it.next()))
        }),
    };
    if segs.is_empty() {
        // the empty list through every kind of iterator
        for k in 0..3 {
            let r = match k {
                0 => guard(|| Path::from_segments(Vec::<&'static str>::new())),
                1 => guard(|| Path::from_segments("".split("::").filter(|s| !s.is_empty()))),
                _ => guard(|| Path::from_segments(std::iter::from_fn(|| None::<&'static str>))),
            };
            match r {
                Ok(Err(PathError::MissingSegments)) => rep.count("empty_iterators", 1),
                other => rep.violation("C18/empty-accepted", format!("an empty segment iterator (kind {}) gives {:?}", k, other.map(|x| x.map(|p| p.segments))), json!({"iterator_kind": k})),
            }
        }
    }
    rep.count(["iter_exact_hint", "iter_inexact_hint", "iter_no_hint"][kind], 1);
    let expect: Result<(), PathError> = if segs.is_empty() {
        Err(PathError::MissingSegments)
    } else if let Some(p) = segs.iter().position(|s| !is_ident(s)) {
        Err(PathError::InvalidIdentifier { segment: p })
    } else {
        Ok(())
    };
    let nontrivial = !segs.is_empty();
    let mut key = Vec::new();
    for s in segs {
        key.extend_from_slice(s.as_bytes());
        key.push(0xff);
    }
    rep.eval(if nontrivial { Some(hash_bytes(&key)) } else { None });
    let case = || json!({"segments": segs, "via": what});
    match (res, expect) {
        (Err(p), _) => rep.violation("C18/from_segments-panic", format!("from_segments panicked: {}", p), case()),
        (Ok(Ok(path)), Ok(())) => {
            rep.count("accepted", 1);
            if path.segments != segs {
                rep.violation("C18/segments-changed", "accepted path does not keep the segments in order".into(), case());
            }
            check_accessors(&path, segs, rep, &case);
        }
        (Ok(Err(e)), Err(x)) => {
            rep.count("rejected", 1);
            if e != x {
                let bad = match x {
                    PathError::InvalidIdentifier { segment } => segs[segment],
                    _ => "",
                };
                let key = if bad.starts_with("r#r#") { "C18/accepts-repeated-raw-prefix" } else { "C18/wrong-error" };
                rep.violation(key, format!("reported {:?}, the first offending segment gives {:?}", e, x), case());
            }
        }
        (Ok(Ok(_)), Err(x)) => {
            let bad = match x {
                PathError::InvalidIdentifier { segment } => segs[segment],
                _ => "",
            };
            let key = if bad.starts_with("r#r#") { "C18/accepts-repeated-raw-prefix" } else { "C18/accepts-invalid" };
            rep.violation(key, format!("accepted although {:?} is expected (segment {:?})", x, bad), case());
        }
        (Ok(Err(e)), Ok(())) => rep.violation("C18/rejects-valid", format!("rejected a valid path with {:?}", e), case()),
    }
}

fn check_accessors(path: &Path, segs: &[&'static str], rep: &mut Report, case: &dyn Fn() -> serde_json::Value) {
    if path.ident() != segs.last().copied() {
        rep.violation("C18/ident", "ident() is not the last segment".into(), case());
    }
    if path.namespace() != &segs[..segs.len() - 1] {
        rep.violation("C18/namespace", "namespace() is not the leading segments".into(), case());
    }
    if path.is_empty() {
        rep.violation("C18/is_empty", "constructed path claims to be empty".into(), case());
    }
    let portable = path.clone().into_portable(&mut Registry::new());
    let want = segs.join("::");
    if portable.to_string() != want {
        rep.violation("C18/display", format!("display form {:?} is not the segments joined by ::", portable.to_string()), case());
    }
    // whatever a caller's format spec asks for (width, fill, alignment), the joined segments appear in one piece:
    // padding may surround the path (or be ignored), it may not be applied to the segments one by one
    if segs.len() >= 2 {
        for shown in [format!("{:14}", portable), format!("{:>14}", portable), format!("{:*^20}", portable), format!("{:<1}", portable)] {
            if !shown.contains(&want) {
                rep.violation("C18/display", format!("display form under a format spec {:?} does not contain the segments joined by ::", shown), case());
                break;
            }
        }
        rep.count("display_format_specs", 4);
    }
    let ps: Vec<&str> = portable.segments.iter().map(|s| s.as_str()).collect();
    if ps != segs {
        rep.violation("C18/portable-segments", "portable form changed the segments".into(), case());
    }
    if portable.ident().as_deref() != segs.last().copied() || portable.namespace().iter().map(|s| s.as_str()).collect::<Vec<_>>() != &segs[..segs.len() - 1] {
        rep.violation("C18/portable-accessors", "portable ident()/namespace() wrong".into(), case());
    }
    rep.count("accessor_checks", 1);
}

/// `module` is in ident("::"ident)* ? returns the segments. Independent of str::split.
fn parse_module(m: &str) -> Option<Vec<&str>> {
    let b = m.as_bytes();
    let mut out = Vec::new();
    let mut start = 0;
    let mut i = 0;
    loop {
        // scan to next ':' or end
        while i < b.len() && b[i] != b':' {
            i += 1;
        }
        let seg = &m[start..i];
        if !is_ident(seg) {
            return None;
        }
        out.push(seg);
        if i == b.len() {
            return Some(out);
        }
        // need exactly "::" followed by an ident start
        if i + 1 < b.len() && b[i + 1] == b':' {
            i += 2;
            start = i;
            if i == b.len() {
                return None;
            }
        } else {
            return None;
        }
    }
}

fn check_new(ident: &'static str, module: &'static str, table: &[(&'static str, &'static str)], rep: &mut Report) {
    let use_replace = !table.is_empty();
    let parsed = parse_module(module);
    // expected segments
    let expect: Option<Vec<&'static str>> = if use_replace {
        // only called with modules whose split is unambiguous (no ":::"), so a textual split is the definition
        let mut segs: Vec<&'static str> = split_unambiguous(module);
        segs.push(ident);
        let segs: Vec<&'static str> = segs.into_iter().map(|s| table.iter().find(|r| r.0 == s).map_or(s, |r| r.1)).collect();
        if segs.iter().all(|s| is_ident(s)) {
            Some(segs)
        } else {
            None
        }
    } else {
        match parsed {
            Some(ms) if is_ident(ident) => {
                let mut v: Vec<&'static str> = ms.iter().map(|s| leak(s.to_string())).collect();
                v.push(ident);
                Some(v)
            }
            _ => None,
        }
    };
    let res = if use_replace { guard(|| Path::new_with_replace(ident, module, table)) } else { guard(|| Path::new(ident, module)) };
    let mut key = Vec::new();
    key.extend_from_slice(ident.as_bytes());
    key.push(0xfe);
    key.extend_from_slice(module.as_bytes());
    for (a, b) in table {
        key.push(0xfd);
        key.extend_from_slice(a.as_bytes());
        key.push(0xfc);
        key.extend_from_slice(b.as_bytes());
    }
    rep.eval(Some(hash_bytes(&key)));
    let case = || json!({"ident": ident, "module": module, "replace": table, "via": if use_replace {"new_with_replace"} else {"new"}});
    match (res, expect) {
        (Ok(path), Some(segs)) => {
            rep.count("new_accepted", 1);
            if path.segments != segs {
                rep.violation("C18/new-segments", format!("constructed segments {:?}, expected {:?}", path.segments, segs), case());
            } else {
                check_accessors(&path, &segs, rep, &case);
            }
        }
        (Err(_), None) => rep.count("new_rejected", 1),
        (Ok(path), None) => {
            let k = if path.segments.iter().any(|s| s.starts_with("r#r#")) { "C18/accepts-repeated-raw-prefix" } else { "C18/new-accepts-invalid" };
            rep.violation(k, format!("constructed {:?} although a segment is not a valid identifier", path.segments), case())
        }
        (Err(p), Some(_)) => rep.violation("C18/new-rejects-valid", format!("panicked on a valid path: {}", p), case()),
    }
}

fn split_unambiguous(m: &'static str) -> Vec<&'static str> {
    // textual definition of "segments separated by ::" for inputs without ":::".
    let mut out = Vec::new();
    let mut rest = m;
    loop {
        match rest.find("::") {
            Some(p) => {
                out.push(&rest[..p]);
                rest = &rest[p + 2..];
            }
            None => {
                out.push(rest);
                return out;
            }
        }
    }
}

fn enumerate(prefix: &str, depth: usize, f: &mut dyn FnMut(&str)) {
    f(prefix);
    if depth == 0 {
        return;
    }
    for a in ALPHA {
        let mut s = prefix.to_string();
        s.push_str(a);
        enumerate(&s, depth - 1, f);
    }
}

pub fn pool() -> Vec<&'static str> {
    vec![
        "", "a", "Z", "_", "r", "r#", "r#a", "r#r", "r#_", "r#7", "r#r#a", "r#r#", "r##a", "#r", "a#", "7", "7a", "a7", "_7", "__",
        "é", "aé", "x²", "a１", "_½", "v٣", "a b", " a", "a ", "a-b", ":", "::", "a::b", ":a", "a:", "foo", "Bar_9", "r#type", "self", "crate", "Self", "\0", "a\0", "r#é",
    ]
}

pub fn run(a: &Args) -> Report {
    let seed = a.u("seed", 1);
    let thorough = a.thorough();
    let maxlen = a.u("maxlen", if thorough { 7 } else { 5 }) as usize;
    let mut rep = Report::default();
    // 1. exhaustive single segments: case = 2-symbol prefix (100 cases) + case 100 = strings shorter than 2
    let cfg = RunCfg { threads: a.u("threads", 16) as usize, cases: NA * NA + 1, first_case: 0, max_secs: a.f("max-secs", 3600.0), progress: None };
    let r1 = run_parallel(&cfg, |i, rep| {
        let mut arena: Vec<String> = Vec::new();
        if i == NA * NA {
            enumerate("", 1, &mut |s| arena.push(s.to_string()));
        } else {
            let p = format!("{}{}", ALPHA[(i / NA) as usize], ALPHA[(i % NA) as usize]);
            enumerate(&p, maxlen - 2, &mut |s| arena.push(s.to_string()));
        }
        // one leaked arena per case
        let joined: &'static str = leak(arena.concat());
        let mut off = 0;
        for s in &arena {
            let seg: &'static str = &joined[off..off + s.len()];
            off += s.len();
            check_segments(&[seg], rep, "single");
        }
        rep.count("single_segment_strings", arena.len() as u64);
    });
    rep.merge(r1);
    rep.sample(|| json!({"exhaustive_single_segments": {"alphabet": ALPHA, "max_len": maxlen}}));
    rep.maxes.insert("exhaustive_max_len".into(), maxlen as u64);

    // 1b. every single byte value 0..=127 (and a handful of non-ASCII characters) in head, tail and raw-head position
    {
        let mut r1b = Report::default();
        let mut chars: Vec<char> = (0u8..128).map(|b| b as char).collect();
        chars.extend(['\u{80}', '\u{a0}', '\u{aa}', '\u{b2}', '\u{e9}', '\u{2160}', '\u{ff11}', '\u{1d7d8}', '\u{200d}', '\u{feff}']);
        for c in chars {
            for form in 0..5 {
                let s = match form {
                    0 => format!("{}", c),
                    1 => format!("x{}", c),
                    2 => format!("{}x", c),
                    3 => format!("r#{}", c),
                    _ => format!("r#x{}y", c),
                };
                check_segments(&[leak(s)], &mut r1b, "char-sweep");
            }
            r1b.count("char_sweep_characters", 1);
        }
        rep.merge(r1b);
    }

    // 1c. every Rust keyword (strict, reserved, weak, path keywords), plain and behind the raw prefix: the grammar of the
    //     property is lexical, so all of them are identifiers; also as members of lists and as arguments of Path::new
    {
        let mut r1c = Report::default();
        let kws = ["as", "break", "const", "continue", "crate", "else", "enum", "extern", "false", "fn", "for", "if", "impl", "in", "let", "loop", "match", "mod", "move", "mut", "pub", "ref",
                   "return", "self", "Self", "static", "struct", "super", "trait", "true", "type", "unsafe", "use", "where", "while", "async", "await", "dyn", "abstract", "become", "box", "do",
                   "final", "macro", "override", "priv", "typeof", "unsized", "virtual", "yield", "try", "gen", "union", "macro_rules", "raw", "safe", "auto", "default", "_"];
        let mut forms: Vec<&'static str> = Vec::new();
        for k in kws {
            forms.push(k);
            for f in [format!("r#{}", k), format!("{}_", k), format!("r#{}_", k), format!("r#{}ish", k), k.to_uppercase(), format!("r#{}", k.to_uppercase()), format!("_{}", k)] {
                forms.push(leak(f));
            }
        }
        for f in &forms {
            check_segments(&[f], &mut r1c, "keyword");
            check_segments(&["a", f, "Z"], &mut r1c, "keyword");
            check_segments(&[f, f], &mut r1c, "keyword");
            // the first offender is reported even when keywords precede it
            check_segments(&[f, "r#x", "1x"], &mut r1c, "keyword");
            check_segments(&["1x", f], &mut r1c, "keyword");
            check_new(f, "a::b", &[], &mut r1c);
            check_new("T", leak(format!("{}::x", f)), &[], &mut r1c);
            check_new("T", leak(format!("x::{}", f)), &[], &mut r1c);
            check_new(f, leak(format!("{}::{}", f, f)), &[], &mut r1c);
            check_new("Planet", "hello::world", &[("world", f)], &mut r1c);
            check_new("Planet", "hello::world", &[("hello", f), ("Planet", f)], &mut r1c);
            check_new(f, "hello::world", &[(f, "renamed")], &mut r1c);
            r1c.count("keyword_forms", 1);
        }
        rep.merge(r1c);
    }

    // 1d. what the derive does with names that are not ASCII identifiers: the derived `type_info()` builds its path through the
    //     checked constructors, so it succeeds exactly when every segment (after replacement) is an ASCII identifier
    {
        use scale_info::TypeInfo;
        use vcommon::hand::non_ascii;
        let mut r1d = Report::default();
        let probes: Vec<(&str, bool, Result<Vec<&'static str>, String>)> = vec![
            ("struct Größe", false, guard(|| <non_ascii::Größe as TypeInfo>::type_info().path.segments.to_vec())),
            ("mod ünï { struct Plain }", false, guard(|| <non_ascii::ünï::Plain as TypeInfo>::type_info().path.segments.to_vec())),
            ("struct Maß with replace_segment(\"Maß\", \"Mass\")", true, guard(|| <non_ascii::Maß as TypeInfo>::type_info().path.segments.to_vec())),
            ("mod ünï { struct Repaired } with replace_segment(\"ünï\", \"uni\")", true, guard(|| <non_ascii::ünï::Repaired as TypeInfo>::type_info().path.segments.to_vec())),
        ];
        for (what, valid, res) in probes {
            r1d.eval(Some(hash_bytes(what.as_bytes())));
            match (valid, res) {
                (false, Ok(segs)) => r1d.violation("C18/new-accepts-invalid", format!("derived type_info() of `{}` constructed the path {:?} although a segment is not an ASCII identifier", what, segs), json!({"derived": what})),
                (true, Err(p)) => r1d.violation("C18/new-rejects-valid", format!("derived type_info() of `{}` panicked although every segment is valid after replacement: {}", what, p), json!({"derived": what})),
                (true, Ok(segs)) if !segs.iter().all(|s| is_ident(s)) => r1d.violation("C18/new-accepts-invalid", format!("derived type_info() of `{}` constructed {:?}", what, segs), json!({"derived": what})),
                _ => r1d.count("derived_non_ascii_names", 1),
            }
        }
        rep.merge(r1d);
    }

    // 2. all segment lists of length <= 3 over the pool
    let pool = pool();
    let n = pool.len() as u64;
    let cfg2 = RunCfg { threads: a.u("threads", 16) as usize, cases: n + 1, first_case: 0, max_secs: a.f("max-secs", 3600.0), progress: None };
    let r2 = run_parallel(&cfg2, |i, rep| {
        if i == n {
            check_segments(&[], rep, "list");
            return;
        }
        let a0 = pool[i as usize];
        check_segments(&[a0], rep, "list");
        for b in &pool {
            check_segments(&[a0, b], rep, "list");
            for c in &pool {
                check_segments(&[a0, b, c], rep, "list");
            }
        }
        rep.count("segment_lists", 1 + n + n * n);
    });
    rep.merge(r2);
    rep.sample(|| json!({"segment_lists_up_to_len_3_over_pool": pool}));

    // 3. Path::new over ident x module pairs
    let mut modules: Vec<&'static str> = Vec::new();
    for a0 in &pool {
        modules.push(a0);
        for b in &pool {
            modules.push(leak(format!("{}::{}", a0, b)));
        }
    }
    for extra in ["a::b::c", "a::b::", "::a", "a:::b", "a::::b", "a::b::c::d::e", "r#a::r#b::c", "a::r#r#b", "std::vec"] {
        modules.push(extra);
    }
    let nm = modules.len() as u64;
    let cfg3 = RunCfg { threads: a.u("threads", 16) as usize, cases: nm, first_case: 0, max_secs: a.f("max-secs", 3600.0), progress: None };
    let r3 = run_parallel(&cfg3, |i, rep| {
        let m = modules[i as usize];
        for id in &pool {
            check_new(id, m, &[], rep);
        }
        rep.count("new_pairs", pool.len() as u64);
    });
    rep.merge(r3);
    rep.sample(|| json!({"path_new_pairs": {"idents": pool.len(), "modules": modules.len(), "example_module": modules[57]}}));

    // 4. new_with_replace with random distinct-key tables (seeded)
    let cases = a.u("cases", if thorough { 2_000_000 } else { 200_000 });
    let good: Vec<&'static str> = modules.iter().copied().filter(|m| !m.contains(":::")).collect();
    let cfg4 = RunCfg { threads: a.u("threads", 16) as usize, cases, first_case: 0, max_secs: a.f("max-secs", 3600.0), progress: None };
    let r4 = run_parallel(&cfg4, |i, rep| {
        let mut rng = Rng::derive(seed ^ 0x18, i);
        let m = *rng.pick(&good);
        let id = *rng.pick(&pool);
        let nt = rng.range(1, 3);
        let mut table: Vec<(&'static str, &'static str)> = Vec::new();
        let segs = {
            let mut s = split_unambiguous(m);
            s.push(id);
            s
        };
        for _ in 0..nt {
            let k = if rng.chance(1, 5) {
                // a key that is a piece of the module path / identifier argument itself (same memory): it starts where a
                // segment starts and ends anywhere. Only its text may matter.
                let src: &'static str = if rng.chance(1, 4) { id } else { m };
                let mut starts: Vec<usize> = vec![0];
                let mut from = 0;
                while let Some(p) = src[from..].find("::") {
                    starts.push(from + p + 2);
                    from += p + 2;
                }
                let st = *rng.pick(&starts);
                let mut en = st + rng.below(src.len() - st + 1);
                while !src.is_char_boundary(en) {
                    en += 1;
                }
                rep.count("replace_keys_cut_from_the_arguments", 1);
                &src[st..en]
            } else if rng.chance(3, 4) { *rng.pick(&segs) } else { *rng.pick(&pool) };
            if table.iter().any(|t| t.0 == k) {
                continue;
            }
            table.push((k, *rng.pick(&pool)));
        }
        if table.is_empty() {
            table.push(("zzz", "a"));
        }
        check_new(id, m, &table, rep);
        // the same call again after editing the table in place (same addresses, other contents): the outcome must follow the contents
        if i % 3 == 0 {
            let k = rng.below(table.len());
            let new_val = *rng.pick(&pool);
            table[k].1 = new_val;
            check_new(id, m, &table, rep);
            table[k].0 = *rng.pick(&segs);
            if table.iter().enumerate().all(|(a, x)| table.iter().enumerate().all(|(b, y)| a == b || x.0 != y.0)) {
                check_new(id, m, &table, rep);
            }
            rep.count("replace_tables_edited_in_place", 1);
        }
        if i < 3 {
            rep.sample(|| json!({"new_with_replace": {"ident": id, "module": m, "table": table}}));
        }
        rep.count("replace_cases", 1);
    });
    rep.merge(r4);
    rep
}
