//! C06 / C07 / C08: registry codecs on RegGen registries.

use crate::args::Args;
use scale::{Decode, DecodeLimit, Encode};
use scale_info::PortableRegistry;
use serde_json::json;
use std::collections::HashMap;
use std::sync::Mutex;
use vcommon::prng::{hash_bytes, Rng};
use vcommon::reggen::{self, Cfg, Mode};
use vcommon::report::{guard, run_parallel, Report};
use vcommon::{refcodec, refjson};

fn hex(b: &[u8]) -> String {
    let mut s = String::with_capacity(b.len() * 2);
    for x in b.iter().take(4096) {
        s.push_str(&format!("{:02x}", x));
    }
    if b.len() > 4096 {
        s.push_str("...");
    }
    s
}

pub fn gen_case(seed: u64, i: u64, thorough: bool) -> (PortableRegistry, Mode, Rng) {
    let mut rng = Rng::derive(seed, i);
    let mode = if rng.chance(2, 5) { Mode::WellFormed } else { Mode::Arbitrary };
    let k = rng.below(1000);
    let cfg = if k < 700 {
        Cfg::small(mode)
    } else if k < 995 || !thorough {
        Cfg::medium(mode)
    } else {
        Cfg { mode, max_types: 20, mid: true, big: true }
    };
    let r = reggen::gen_registry(&mut rng, &cfg);
    (r, mode, rng)
}

fn describe(r: &PortableRegistry) -> serde_json::Value {
    // compact description for samples / replays
    json!({"n_types": r.types.len(), "scale_hex": hex(&refcodec::encode(r))})
}

pub fn run(a: &Args) -> Report {
    let prop = a.prop();
    let seed = a.u("seed", 1);
    let thorough = a.thorough();
    let cfg = a.run_cfg(if thorough { 2_000_000 } else { 20_000 });
    let small_encodings: Mutex<HashMap<Vec<u8>, PortableRegistry>> = Mutex::new(HashMap::new());

    let mut rep = Report::default();
    if cfg.first_case == 0 {
        // anchor vectors: hand-written bytes vs both codecs
        for (name, reg, bytes) in refcodec::anchors() {
            rep.count("anchors_checked", 1);
            let lib = reg.encode();
            let rf = refcodec::encode(&reg);
            if rf != bytes {
                rep.inconclusive(format!("reference encoder disagrees with hand-written anchor {}", name));
            }
            match refcodec::decode(&bytes) {
                Ok((r2, used)) if r2 == reg && used == bytes.len() => {}
                other => rep.inconclusive(format!("reference decoder disagrees with anchor {}: {:?}", name, other.map(|x| x.1))),
            }
            if prop == "C06" {
                if lib != bytes {
                    rep.violation(
                        "C06/anchor-encode",
                        format!("library encoding of anchor `{}` differs from the hand-derived V14 bytes", name),
                        json!({"anchor": name, "lib_hex": hex(&lib), "want_hex": hex(&bytes)}),
                    );
                }
                match guard(|| PortableRegistry::decode(&mut &bytes[..])) {
                    Ok(Ok(r2)) if r2 == reg => {}
                    other => rep.violation(
                        "C06/anchor-decode",
                        format!("library decoding of anchor `{}` bytes does not give the anchor registry: {:?}", name, other.map(|x| x.map(|_| "different registry"))),
                        json!({"anchor": name, "want_hex": hex(&bytes)}),
                    ),
                }
            }
        }
    }

    if cfg.first_case == 0 && (prop == "C06" || prop == "C07") {
        // registries with very many entries: the type table itself crosses 1024 / 16384 entries
        for n in [1025usize, 16383, 16384, 16385, 20_000] {
            let mut rng = Rng::derive(seed ^ 0xb16, n as u64);
            let ids = reggen::IdGen { mode: Mode::WellFormed, shape: reggen::Shape::Sparse, n };
            let cfgs = Cfg::small(Mode::WellFormed);
            let r = PortableRegistry { types: (0..n).map(|k| scale_info::PortableType::new(k as u32, if k % 50 == 0 { reggen::gen_type(&mut rng, &cfgs, &ids, k, None) } else { reggen::gen_type(&mut rng, &cfgs, &ids, k, Some(5 + (k % 2))) })).collect() };
            let ref_bytes = refcodec::encode(&r);
            let lib_bytes = r.encode();
            rep.eval(Some(hash_bytes(&ref_bytes)));
            rep.count("large_registries", 1);
            rep.max("max_types", n as u64);
            let case = json!({"fixed_large_registry_entries": n, "seed": seed});
            if lib_bytes != ref_bytes {
                rep.violation(&format!("{}/large-registry-encode", prop), format!("a registry of {} entries encodes differently from the layout", n), case.clone());
            }
            for (what, res) in [("slice", guard(|| PortableRegistry::decode(&mut &ref_bytes[..]))), ("stream", guard(|| PortableRegistry::decode(&mut scale::IoReader(&ref_bytes[..])))),
                                ("depth-limit-48", guard(|| PortableRegistry::decode_with_depth_limit(48, &mut &ref_bytes[..])))] {
                match res {
                    Ok(Ok(r2)) if r2 == r => {}
                    Ok(Ok(r2)) => rep.violation(&format!("{}/large-registry-roundtrip", prop), format!("a registry of {} entries decodes ({} input) to {} entries / a different value", n, what, r2.types.len()), case.clone()),
                    other => rep.violation(&format!("{}/large-registry-roundtrip", prop), format!("a registry of {} entries does not decode ({} input): {:?}", n, what, other.map(|x| x.map(|_| ()).map_err(|e| e.to_string()))), case.clone()),
                }
            }
        }
    }

    if cfg.first_case == 0 && (prop == "C06" || prop == "C07") {
        // the most compact encodings there are: k minimal elements of each kind as the very last thing in the input
        use scale_info::{Field, Path, PortableType, Type, TypeDefComposite, TypeDefTuple, TypeDefVariant, TypeParameter, Variant};
        let nop = || Path::from_segments_unchecked(Vec::<String>::new());
        for k in 0..7usize {
            let defs: Vec<(&str, Type<scale_info::form::PortableForm>)> = vec![
                ("unit-variants", Type::new(nop(), vec![], TypeDefVariant::new((0..k).map(|j| Variant::new(String::new(), vec![], j as u8, vec![]))), vec![])),
                ("bare-fields", Type::new(nop(), vec![], TypeDefComposite::new((0..k).map(|_| Field::new(None, 0.into(), None, vec![]))), vec![])),
                ("tuple", Type::new(nop(), vec![], TypeDefTuple::new_portable((0..k).map(|_| 0.into())), vec![])),
                ("skipped-params", Type::new(nop(), (0..k).map(|_| TypeParameter::new_portable(String::new(), None)), TypeDefTuple::new_portable(Vec::new()), vec![])),
                ("empty-docs", Type::new(nop(), vec![], TypeDefTuple::new_portable(Vec::new()), (0..k).map(|_| String::new()).collect())),
                ("empty-segments", Type::new(Path::from_segments_unchecked((0..k).map(|_| String::new())), vec![], TypeDefTuple::new_portable(Vec::new()), vec![])),
                ("variant-bare-fields", Type::new(nop(), vec![], TypeDefVariant::new(vec![Variant::new(String::new(), (0..k).map(|_| Field::new(None, 0.into(), None, vec![])).collect(), 0, vec![])]), vec![])),
            ];
            for (what, ty) in defs {
                let r = PortableRegistry { types: vec![PortableType::new(0, ty)] };
                let ref_bytes = refcodec::encode(&r);
                rep.eval(Some(hash_bytes(&ref_bytes)));
                rep.count("minimal_encodings", 1);
                let case = json!({"fixed_minimal": what, "elements": k, "scale_hex": hex(&ref_bytes)});
                if r.encode() != ref_bytes {
                    rep.violation(&format!("{}/minimal-encode", prop), format!("{} x {}: library encoding differs from the layout", what, k), case.clone());
                }
                for (inp, res) in [("slice", guard(|| PortableRegistry::decode(&mut &ref_bytes[..]))), ("stream", guard(|| PortableRegistry::decode(&mut scale::IoReader(&ref_bytes[..]))))] {
                    match res {
                        Ok(Ok(r2)) if r2 == r => {}
                        other => rep.violation(&format!("{}/minimal-roundtrip", prop), format!("{} x {} ({} input, {} bytes): {:?}", what, k, inp, ref_bytes.len(), other.map(|x| x.map(|_| "different registry").map_err(|e| e.to_string()))), case.clone()),
                    }
                }
            }
        }
    }

    if cfg.first_case == 0 && (prop == "C06" || prop == "C07") {
        // long strings of multi-byte characters: every alignment of 2-, 3- and 4-byte characters relative to the 4 KiB / 16 KiB /
        // 64 KiB marks, as a doc line of a type, of a field and of a variant, as a name and as a path segment
        use scale_info::{Field, Path, PortableType, Type, TypeDefComposite, TypeDefVariant, Variant};
        for (ch, w) in [("é", 2usize), ("日", 3), ("😀", 4)] {
            for mark in [4096usize, 8192, 16384, 32768, 65536] {
                for lead in 0..w {
                    let n_chars = (mark + 64) / w + 2;
                    let mut text = "x".repeat(lead);
                    for _ in 0..n_chars {
                        text.push_str(ch);
                    }
                    let field = |docs: Vec<String>, name: Option<String>| Field::new(name, 0.into(), Some("u8".to_string()), docs);
                    let types = vec![
                        PortableType::new(0, Type::new(Path::from_segments_unchecked(vec!["long".to_string()]), vec![], TypeDefComposite::new(vec![field(vec![], None)]), vec![text.clone(), "short".to_string()])),
                        PortableType::new(1, Type::new(Path::from_segments_unchecked(vec!["long".to_string(), "F".to_string()]), vec![], TypeDefComposite::new(vec![field(vec!["short".to_string(), text.clone()], Some("a".to_string()))]), vec![])),
                        PortableType::new(2, Type::new(Path::from_segments_unchecked(vec!["V".to_string()]), vec![], TypeDefVariant::new(vec![Variant::new("A".to_string(), vec![field(vec![text.clone()], None)], 0, vec![text.clone()])]), vec![])),
                        PortableType::new(3, Type::new(Path::from_segments_unchecked(vec![text.clone()]), vec![], TypeDefComposite::new(vec![field(vec![], Some(text.clone()))]), vec![])),
                    ];
                    let r = PortableRegistry { types };
                    let ref_bytes = refcodec::encode(&r);
                    rep.eval(Some(hash_bytes(&ref_bytes)));
                    rep.count("long_multibyte_string_registries", 1);
                    let case = json!({"fixed_long_string": {"char_width": w, "near_byte": mark, "leading_ascii_bytes": lead}});
                    match guard(|| r.encode()) {
                        Ok(b) if b == ref_bytes => {}
                        Ok(_) => rep.violation(&format!("{}/encode-differs", prop), "library encoding of a registry with a long multi-byte string differs from the layout".into(), case.clone()),
                        Err(p) => rep.violation(&format!("{}/encode-panic", prop), p, case.clone()),
                    }
                    for (inp, res) in [("slice", guard(|| PortableRegistry::decode(&mut &ref_bytes[..]))), ("stream", guard(|| PortableRegistry::decode(&mut scale::IoReader(&ref_bytes[..]))))] {
                        match res {
                            Ok(Ok(r2)) if r2 == r => {}
                            other => rep.violation(&format!("{}/long-string-roundtrip", prop), format!("{}-byte characters across the {} byte mark ({} leading ASCII bytes), {} input: {:?}", w, mark, lead, inp, other.map(|x| x.map(|_| "different registry").map_err(|e| e.to_string()))), case.clone()),
                        }
                    }
                }
            }
        }
    }

    let body = run_parallel(&cfg, |i, rep| {
        let (r, mode, mut rng) = gen_case(seed, i, thorough);
        let ref_bytes = refcodec::encode(&r);
        let h = hash_bytes(&ref_bytes);
        let nontrivial = !r.types.is_empty();
        rep.eval(if nontrivial { Some(h) } else { None });
        rep.count(if mode == Mode::WellFormed { "mode_wellformed" } else { "mode_arbitrary" }, 1);
        rep.max("max_types", r.types.len() as u64);
        rep.max("max_encoded_len", ref_bytes.len() as u64);
        for t in &r.types {
            rep.count(&format!("def_{}", reggen::KIND_NAMES[reggen::def_kind(&t.ty)]), 1);
            let cls = match t.id {
                0..=63 => "id_class_1byte",
                64..=16383 => "id_class_2byte",
                16384..=0x3fff_ffff => "id_class_4byte",
                _ => "id_class_5byte",
            };
            rep.count(cls, 1);
        }
        let case = || json!({"case": i, "seed": seed, "registry": describe(&r)});
        rep.sample(|| json!({"case": i, "n_types": r.types.len(), "encoded_len": ref_bytes.len(), "scale_hex_prefix": hex(&ref_bytes[..ref_bytes.len().min(48)])}));

        let lib_bytes = match guard(|| r.encode()) {
            Ok(b) => b,
            Err(p) => {
                rep.violation(&format!("{}/encode-panic", prop), format!("encode panicked: {}", p), case());
                return;
            }
        };

        // two registries encoded through the borrowing entry point at the same time (nested callbacks on one thread)
        if i % 5 == 0 {
            let other = PortableRegistry { types: r.types.iter().rev().cloned().collect() };
            let other_bytes = refcodec::encode(&other);
            match guard(|| r.using_encoded(|x| other.using_encoded(|y| (x.to_vec(), y.to_vec())))) {
                Ok((x, y)) => {
                    if x != ref_bytes && prop == "C06" || x != lib_bytes || y != other_bytes && prop == "C06" || y != other.encode() {
                        rep.violation(&format!("{}/nested-using-encoded", prop), "two registries encoded through nested using_encoded calls: the bytes handed to the callbacks are not the two encodings".into(), case());
                        return;
                    }
                    rep.count("nested_using_encoded", 1);
                }
                Err(p) => {
                    rep.violation(&format!("{}/encode-panic", prop), format!("nested using_encoded of two registries panicked: {}", p), case());
                    return;
                }
            }
        }
        if a.has("light") && prop == "C08" {
            // short form for slow interpreters (other platforms): documented shape, and back
            match guard(|| serde_json::to_value(&r)) {
                Ok(Ok(v)) => {
                    if v != refjson::registry(&r) {
                        rep.violation("C08/shape", "serialised JSON differs from the documented shape".into(), case());
                    }
                    match guard(|| serde_json::from_value::<PortableRegistry>(v)) {
                        Ok(Ok(r2)) if r2 == r => {}
                        other => rep.violation("C08/roundtrip-value", format!("from_value(to_value(r)): {:?}", other.map(|x| x.map(|_| "different registry").map_err(|e| e.to_string()))), case()),
                    }
                }
                other => rep.violation("C08/serialize-fails", format!("{:?}", other.map(|x| x.map(|_| ()))), case()),
            }
            rep.count("json_light_cases", 1);
            return;
        }
        if a.has("light") {
            // the short form of the monitor (for slow interpreters): layout bytes both ways, nothing else
            if lib_bytes != ref_bytes {
                let at = lib_bytes.iter().zip(ref_bytes.iter()).position(|(a, b)| a != b).unwrap_or(lib_bytes.len().min(ref_bytes.len()));
                rep.violation(&format!("{}/encode-differs", prop), format!("library encoding differs from the V14 layout at byte {} (lib {} bytes, layout {} bytes)", at, lib_bytes.len(), ref_bytes.len()), case());
            }
            match guard(|| PortableRegistry::decode(&mut &ref_bytes[..])) {
                Ok(Ok(r2)) if r2 == r => {}
                Ok(Ok(_)) => rep.violation(&format!("{}/lib-decode-of-ref", prop), "library decodes a different registry from layout bytes".into(), case()),
                Ok(Err(e)) => rep.violation(&format!("{}/lib-decode-of-ref", prop), format!("library rejects layout bytes: {}", e), case()),
                Err(p) => rep.violation(&format!("{}/lib-decode-of-ref", prop), format!("library panics on layout bytes: {}", p), case()),
            }
            rep.count("bytes_compared", ref_bytes.len() as u64);
            return;
        }
        // Fault injection: an encoding attempt that is cut short (the destination panics, as the codec's adapter for
        // io::Write does on any I/O error) must leave nothing behind: the next encodings on this thread are exact.
        if i % 3 == 0 && !ref_bytes.is_empty() {
            let mut frng = Rng::derive(seed ^ 0xfa17, i);
            let limit = frng.below(ref_bytes.len());
            let which = frng.below(3);
            let ty0 = if r.types.is_empty() { None } else { Some(r.types[frng.below(r.types.len())].ty.clone()) };
            let ty_before = ty0.as_ref().map(|t| t.encode());
            let aborted = guard(|| match which {
                0 => r.encode_to(&mut ShortWriter { left: limit }),
                1 => r.encode_to(&mut PanickingOutput { left: limit }),
                _ => {
                    if let Some(t) = &ty0 {
                        t.encode_to(&mut PanickingOutput { left: limit.min(ty_before.as_ref().map(|b| b.len().saturating_sub(1)).unwrap_or(0)) })
                    }
                }
            });
            if aborted.is_err() {
                rep.count("encodings_aborted_by_a_failing_destination", 1);
            }
            let after = guard(|| {
                let mut to = Vec::new();
                r.encode_to(&mut to);
                (r.encode(), to, r.using_encoded(|b| b.to_vec()), r.encoded_size(), (7u8, &r).encode(), ty0.as_ref().map(|t| t.encode()))
            });
            match after {
                Ok((a, b, c, n, d, t)) => {
                    let mut tup = vec![7u8];
                    tup.extend_from_slice(&lib_bytes);
                    if a != lib_bytes || b != lib_bytes || c != lib_bytes || n != lib_bytes.len() || d != tup || t != ty_before {
                        rep.violation(
                            &format!("{}/encoding-after-aborted-encoding", prop),
                            format!("after an encoding attempt whose destination failed after {} bytes, the same value encodes differently on this thread (encode {} bytes, encode_to {}, using_encoded {}, encoded_size {}; before: {} bytes)", limit, a.len(), b.len(), c.len(), n, lib_bytes.len()),
                            case(),
                        );
                        return;
                    }
                    rep.count("encodings_rechecked_after_abort", 1);
                }
                Err(p) => {
                    rep.violation(&format!("{}/encode-panic", prop), format!("encode panicked after an aborted encoding: {}", p), case());
                    return;
                }
            }
        }

        match prop.as_str() {
            "C06" => {
                if lib_bytes != ref_bytes {
                    let at = lib_bytes.iter().zip(ref_bytes.iter()).position(|(a, b)| a != b).unwrap_or(lib_bytes.len().min(ref_bytes.len()));
                    rep.violation(
                        "C06/encode-differs",
                        format!("library encoding differs from the V14 layout at byte {} (lib {} bytes, layout {} bytes)", at, lib_bytes.len(), ref_bytes.len()),
                        json!({"case": i, "seed": seed, "first_diff": at, "lib_hex": hex(&lib_bytes), "ref_hex": hex(&ref_bytes)}),
                    );
                }
                match refcodec::decode(&lib_bytes) {
                    Ok((r2, used)) => {
                        if r2 != r || used != lib_bytes.len() {
                            rep.violation("C06/ref-decode-of-lib", "layout decoder reads a different registry from the library's bytes".into(), case());
                        }
                    }
                    Err(e) => rep.violation("C06/ref-decode-of-lib", format!("layout decoder rejects the library's bytes: {}", e), case()),
                }
                match guard(|| PortableRegistry::decode(&mut &ref_bytes[..])) {
                    Ok(Ok(r2)) => {
                        if r2 != r {
                            rep.violation("C06/lib-decode-of-ref", "library decodes a different registry from layout bytes".into(), case());
                        }
                    }
                    Ok(Err(e)) => rep.violation("C06/lib-decode-of-ref", format!("library rejects layout bytes: {}", e), case()),
                    Err(p) => rep.violation("C06/lib-decode-of-ref", format!("library panics on layout bytes: {}", p), case()),
                }
                rep.count("bytes_compared", ref_bytes.len() as u64);
                // other entry points of the codec must agree with the layout too
                // (size_hint() is only a hint: nothing is asserted about it)
                if r.encoded_size() != ref_bytes.len() {
                    rep.violation("C06/encoded-size", format!("encoded_size() = {}, layout has {} bytes", r.encoded_size(), ref_bytes.len()), case());
                }
                let via = r.using_encoded(|b| b.to_vec());
                if via != ref_bytes {
                    rep.violation("C06/using-encoded-differs", "using_encoded hands out bytes that differ from the layout".into(), case());
                }
                // skipping an encoded registry consumes exactly the layout's bytes
                let mut with = ref_bytes.clone();
                with.extend_from_slice(&[0xAA, 0x55, 0x01]);
                let mut inp = &with[..];
                match guard(|| <PortableRegistry as Decode>::skip(&mut inp)) {
                    Ok(Ok(())) if inp.len() == 3 => rep.count("skips_checked", 1),
                    other => rep.violation("C06/skip", format!("Decode::skip over layout bytes: {:?}, {} bytes left (want 3)", other.map(|x| x.map_err(|e| e.to_string())), inp.len()), case()),
                }
                // a depth limit far above the nesting of the layout (registry > type > def > field > docs) must not matter
                match guard(|| PortableRegistry::decode_with_depth_limit(48, &mut &ref_bytes[..])) {
                    Ok(Ok(r2)) if r2 == r => rep.count("depth_limited_decodes", 1),
                    other => rep.violation("C06/lib-decode-of-ref-depth-limit", format!("decode_with_depth_limit(48) of layout bytes: {:?}", other.map(|x| x.map(|_| "different registry").map_err(|e| e.to_string()))), case()),
                }
                // an input that cannot tell its remaining length (streaming reader) must decode the same bytes to the same value
                if i % 4 == 0 {
                    match guard(|| PortableRegistry::decode(&mut scale::IoReader(&ref_bytes[..]))) {
                        Ok(Ok(r2)) if r2 == r => rep.count("stream_input_decodes", 1),
                        other => rep.violation("C06/lib-decode-of-ref-stream", format!("library does not decode layout bytes from a streaming input: {:?}", other.map(|x| x.map(|_| "different registry").map_err(|e| e.to_string()))), case()),
                    }
                }
            }
            "C07" => {
                // round trip, exact consumption
                let mut input = &lib_bytes[..];
                match guard(|| PortableRegistry::decode(&mut input)) {
                    Ok(Ok(r2)) => {
                        if r2 != r {
                            rep.violation("C07/roundtrip-differs", "decode(encode(r)) != r".into(), case());
                        }
                        if !input.is_empty() {
                            rep.violation("C07/consumption", format!("{} bytes left after decoding own encoding", input.len()), case());
                        }
                    }
                    Ok(Err(e)) => rep.violation("C07/roundtrip-rejects", format!("decode(encode(r)) fails: {}", e), case()),
                    Err(p) => rep.violation("C07/roundtrip-panics", p, case()),
                }
                if i % 4 == 0 {
                    match guard(|| PortableRegistry::decode(&mut scale::IoReader(&lib_bytes[..]))) {
                        Ok(Ok(r2)) if r2 == r => rep.count("stream_input_roundtrips", 1),
                        other => rep.violation("C07/roundtrip-stream-input", format!("decode(encode(r)) through a streaming input: {:?}", other.map(|x| x.map(|_| "different registry").map_err(|e| e.to_string()))), case()),
                    }
                }
                // trailing bytes are left untouched
                let trailer = rng.bytes(rng.clone().below(9) + 1);
                let mut with = lib_bytes.clone();
                with.extend_from_slice(&trailer);
                let mut input = &with[..];
                match guard(|| PortableRegistry::decode(&mut input)) {
                    Ok(Ok(r2)) => {
                        if r2 != r || input != &trailer[..] {
                            rep.violation("C07/trailer", format!("with a trailer, decode left {} bytes (want {}) or changed the value", input.len(), trailer.len()), case());
                        }
                    }
                    other => rep.violation("C07/trailer", format!("decode with trailer failed: {:?}", other.map(|x| x.map(|_| ()))), case()),
                }
                rep.count("trailers_checked", 1);
                match guard(|| PortableRegistry::decode_all_with_depth_limit(48, &mut &lib_bytes[..])) {
                    Ok(Ok(r2)) if r2 == r => rep.count("depth_limited_roundtrips", 1),
                    other => rep.violation("C07/roundtrip-depth-limit", format!("decode_all_with_depth_limit(48)(encode(r)): {:?}", other.map(|x| x.map(|_| "different registry").map_err(|e| e.to_string()))), case()),
                }
                // encoding is a function of the value: edit the registry in place (same buffer, same length) and encode again
                // through every entry point
                {
                    let mut m = r.clone();
                    let first = m.using_encoded(|b| b.to_vec());
                    if first != lib_bytes {
                        rep.violation("C07/nondeterministic", "using_encoded differs from encode for the same value".into(), case());
                    }
                    if !m.types.is_empty() {
                        let k = rng.below(m.types.len());
                        m.types[k].ty.docs.push("edited in place".to_string());
                        m.types[k].id = m.types[k].id.wrapping_add(1);
                        let want = refcodec::encode(&m);
                        let got1 = m.using_encoded(|b| b.to_vec());
                        let got2 = m.encode();
                        let mut got3 = Vec::new();
                        m.encode_to(&mut got3);
                        if got1 != want || got2 != want || got3 != want {
                            rep.violation("C07/stale-encoding", "after an in-place edit an encoding entry point returns bytes of the previous value".into(), case());
                        }
                        rep.count("in_place_edits_reencoded", 1);
                    }
                }
                // determinism
                let again = r.encode();
                let cl = r.clone().encode();
                if again != lib_bytes || cl != lib_bytes {
                    rep.violation("C07/nondeterministic", "encode is not deterministic".into(), case());
                }
                if lib_bytes.len() != r.encoded_size() {
                    rep.violation("C07/size-hint", "encoded_size() disagrees with encode().len()".into(), case());
                }
                // injectivity on neighbours
                let mut tried = 0;
                let mut done = 0;
                while done < 6 && tried < 40 {
                    tried += 1;
                    if let Some((r2, what)) = reggen::mutate(&mut rng, &r) {
                        done += 1;
                        rep.count(&format!("mutator_{}", what), 1);
                        let b2 = r2.encode();
                        if b2 == lib_bytes {
                            rep.violation(
                                "C07/collision-neighbour",
                                format!("two different registries (edit: {}) share one encoding", what),
                                json!({"case": i, "seed": seed, "edit": what, "registry": describe(&r), "neighbour_debug": format!("{:?}", r2).chars().take(2000).collect::<String>()}),
                            );
                        }
                        // and the neighbour round-trips to itself, not to r
                        match guard(|| PortableRegistry::decode(&mut &b2[..])) {
                            Ok(Ok(d2)) => {
                                if d2 != r2 {
                                    rep.violation("C07/roundtrip-differs", format!("neighbour ({}) does not round-trip", what), json!({"case": i, "seed": seed, "edit": what}));
                                }
                            }
                            other => rep.violation("C07/roundtrip-rejects", format!("neighbour ({}) fails to decode: {:?}", what, other.map(|x| x.map(|_| ()))), json!({"case": i, "seed": seed, "edit": what})),
                        }
                    }
                }
                rep.count("neighbours_checked", done);
                // run-wide collision map, exact for short encodings
                if lib_bytes.len() <= 48 {
                    let mut m = small_encodings.lock().unwrap();
                    if let Some(prev) = m.get(&lib_bytes) {
                        if prev != &r {
                            rep.violation("C07/collision-global", "two different registries generated in this run share one encoding".into(), case());
                        } else {
                            rep.count("global_map_same_registry_again", 1);
                        }
                    } else if m.len() < 2_000_000 {
                        m.insert(lib_bytes.clone(), r.clone());
                    }
                    rep.count("global_map_lookups", 1);
                }
            }
            "C08" => {
                let want = refjson::registry(&r);
                let got = match guard(|| serde_json::to_value(&r)) {
                    Ok(Ok(v)) => v,
                    other => {
                        rep.violation("C08/serialize-fails", format!("{:?}", other.map(|x| x.map(|_| ()))), case());
                        return;
                    }
                };
                if got != want {
                    rep.violation(
                        "C08/shape",
                        "serialised JSON differs from the documented shape".into(),
                        json!({"case": i, "seed": seed, "got": truncate_json(&got), "want": truncate_json(&want)}),
                    );
                }
                let mut unk = Vec::new();
                refjson::unknown_keys(&got, false, &mut unk);
                if !unk.is_empty() {
                    unk.sort();
                    unk.dedup();
                    rep.violation("C08/vocabulary", format!("keys outside the documented vocabulary: {:?}", unk), case());
                }
                count_keys(&got, rep);
                match guard(|| serde_json::from_value::<PortableRegistry>(got.clone())) {
                    Ok(Ok(r2)) => {
                        if r2 != r {
                            rep.violation("C08/roundtrip-value", "from_value(to_value(r)) != r".into(), case());
                        }
                        // same information as the SCALE form
                        if let Ok(Ok(r3)) = guard(|| PortableRegistry::decode(&mut &lib_bytes[..])) {
                            if r3 != r2 {
                                rep.violation("C08/json-vs-scale", "JSON round trip and SCALE round trip disagree".into(), case());
                            }
                        }
                    }
                    other => rep.violation("C08/roundtrip-value", format!("from_value fails: {:?}", other.map(|x| x.map(|_| ()).map_err(|e| e.to_string()))), case()),
                }
                let text = serde_json::to_string(&r).unwrap_or_default();
                rep.count("json_bytes", text.len() as u64);
                match guard(|| serde_json::from_str::<PortableRegistry>(&text)) {
                    Ok(Ok(r2)) => {
                        if r2 != r {
                            rep.violation("C08/roundtrip-text", "from_str(to_string(r)) != r".into(), case());
                        }
                    }
                    other => rep.violation("C08/roundtrip-text", format!("from_str fails: {:?}", other.map(|x| x.map(|_| ()).map_err(|e| e.to_string()))), case()),
                }
                // the registry embedded in a larger document the way metadata formats do it (`#[serde(flatten)]` next to other keys)
                if i % 4 == 1 {
                    let doc = Embedding { version: 4, registry: r.clone(), spec: "contract".to_string() };
                    match guard(|| serde_json::to_value(&doc)) {
                        Ok(Ok(v)) => {
                            let mut expect = want.clone();
                            if let Some(m) = expect.as_object_mut() {
                                m.insert("version".into(), json!(4));
                                m.insert("spec".into(), json!("contract"));
                            }
                            if v != expect {
                                rep.violation("C08/shape", "a registry flattened into a larger document is not serialised in the documented shape".into(), case());
                            }
                            match guard(|| serde_json::from_value::<Embedding>(v)) {
                                Ok(Ok(d2)) if d2.registry == r && d2.version == 4 && d2.spec == "contract" => rep.count("flattened_roundtrips", 1),
                                other => rep.violation("C08/roundtrip-value", format!("a document with the registry flattened into it does not read back: {:?}", other.map(|x| x.map(|_| "different registry").map_err(|e| e.to_string()))), case()),
                            }
                        }
                        other => rep.violation("C08/serialize-fails", format!("flattened: {:?}", other.map(|x| x.map(|_| ()))), case()),
                    }
                }
                // pretty printer too (different whitespace path in the deserialiser)
                if i % 8 == 0 {
                    let pretty = serde_json::to_string_pretty(&r).unwrap_or_default();
                    match guard(|| serde_json::from_slice::<PortableRegistry>(pretty.as_bytes())) {
                        Ok(Ok(r2)) if r2 == r => {}
                        _ => rep.violation("C08/roundtrip-text", "from_slice(to_string_pretty(r)) != r".into(), case()),
                    }
                }
            }
            _ => panic!("codec: unknown --prop"),
        }
    });
    rep.merge(body);
    rep
}

/// A document that embeds a registry next to other keys (ink!-style metadata does this).
#[derive(serde::Serialize, serde::Deserialize)]
struct Embedding {
    version: u8,
    #[serde(flatten)]
    registry: PortableRegistry,
    spec: String,
}

/// An io::Write destination that fails once `left` bytes were taken (the codec turns that into a panic).
struct ShortWriter {
    left: usize,
}

impl std::io::Write for ShortWriter {
    fn write(&mut self, buf: &[u8]) -> std::io::Result<usize> {
        if buf.len() > self.left {
            self.left = 0;
            return Err(std::io::Error::new(std::io::ErrorKind::Other, "destination full"));
        }
        self.left -= buf.len();
        Ok(buf.len())
    }
    fn flush(&mut self) -> std::io::Result<()> {
        Ok(())
    }
}

/// A codec Output that panics once `left` bytes were taken.
struct PanickingOutput {
    left: usize,
}

impl scale::Output for PanickingOutput {
    fn write(&mut self, bytes: &[u8]) {
        if bytes.len() > self.left {
            panic!("destination full");
        }
        self.left -= bytes.len();
    }
}

fn truncate_json(v: &serde_json::Value) -> String {
    let s = v.to_string();
    s.chars().take(3000).collect()
}

fn count_keys(v: &serde_json::Value, rep: &mut Report) {
    match v {
        serde_json::Value::Object(m) => {
            for (k, x) in m {
                if k.len() < 20 {
                    rep.count(&format!("key_{}", k), 1);
                }
                count_keys(x, rep);
            }
        }
        serde_json::Value::Array(a) => {
            for x in a {
                count_keys(x, rep);
            }
        }
        serde_json::Value::Null => rep.count("json_null", 1),
        _ => {}
    }
}
