//! C19: emit the generated JSON Schema and serialised registries for an external validator.

use crate::args::Args;
use scale_info::PortableRegistry;
use serde_json::json;
use std::io::Write;
use vcommon::prng::hash_bytes;
use vcommon::reggen;
use vcommon::report::Report;

#[cfg(feature = "schema")]
pub fn run(a: &Args) -> Report {
    let seed = a.u("seed", 1);
    let thorough = a.thorough();
    let cases = a.u("cases", 3000);
    let shards = a.u("shards", 16);
    let dir = a.s("emit-dir", "/tmp/schema-out");
    std::fs::create_dir_all(&dir).expect("emit dir");
    let mut rep = Report::default();
    let schema = match vcommon::report::guard(|| schemars::schema_for!(PortableRegistry)) {
        Ok(s) => s,
        Err(p) => {
            rep.violation("C19/schema-generation-panics", p, json!({}));
            return rep;
        }
    };
    std::fs::write(format!("{}/schema.json", dir), serde_json::to_vec_pretty(&schema).unwrap()).expect("write schema");
    let mut files: Vec<std::io::BufWriter<std::fs::File>> =
        (0..shards).map(|k| std::io::BufWriter::new(std::fs::File::create(format!("{}/docs-{}.jsonl", dir, k)).unwrap())).collect();
    let mut emit = |i: u64, r: &PortableRegistry, rep: &mut Report, origin: &str| {
        let text = serde_json::to_string(r).expect("serialise");
        rep.eval(if r.types.is_empty() { None } else { Some(hash_bytes(text.as_bytes())) });
        rep.count(&format!("origin_{}", origin), 1);
        for t in &r.types {
            rep.count(&format!("def_{}", reggen::KIND_NAMES[reggen::def_kind(&t.ty)]), 1);
            if t.ty.type_params.iter().any(|p| p.ty.is_none()) {
                rep.count("skipped_type_param_null", 1);
            }
            if t.ty.path.segments.is_empty() {
                rep.count("empty_path_omitted", 1);
            }
            if t.id == u32::MAX {
                rep.count("id_u32_max", 1);
            }
        }
        let f = &mut files[(i % shards) as usize];
        writeln!(f, "{}", json!({"case": i, "origin": origin, "doc": serde_json::from_str::<serde_json::Value>(&text).unwrap()})).unwrap();
        if i < 2 {
            rep.sample(|| json!({"case": i, "origin": origin, "doc_prefix": text.chars().take(400).collect::<String>()}));
        }
    };
    for i in 0..cases {
        let (r, _, _) = crate::codec::gen_case(seed ^ 0x19, i, thorough);
        emit(i, &r, &mut rep, "reggen");
    }
    let mut i = cases;
    for r in crate::corpus_registries() {
        emit(i, &r, &mut rep, "corpus");
        i += 1;
    }
    for f in files.iter_mut() {
        f.flush().unwrap();
    }
    rep
}

#[cfg(not(feature = "schema"))]
pub fn run(_a: &Args) -> Report {
    let _ = (hash_bytes(b""), reggen::KIND_NAMES, json!(0));
    let _ = std::io::stdout().flush();
    let mut rep = Report::default();
    let _: Option<PortableRegistry> = None;
    rep.inconclusive("rt was built without the `schema` feature".into());
    rep
}
