//! C17 (a): builders are lossless and order preserving; PhantomData members are erased;
//! feature-gated docs setters keep docs only with the docs feature.

use crate::args::Args;
use scale::Compact;
use scale_info::build::{FieldBuilder, Fields, VariantBuilder, Variants};
use scale_info::form::{MetaForm, PortableForm};
use scale_info::{
    meta_type, Field, MetaType, Path, Type, TypeDef, TypeDefComposite, TypeDefTuple, TypeDefVariant, TypeParameter, Variant,
};
use serde_json::json;
use std::marker::PhantomData;
use vcommon::prng::{hash_bytes, Rng};
use vcommon::reggen::{gen_string, Cfg, Mode};
use vcommon::report::{guard, run_parallel, Report};

const DOCS_ON: bool = cfg!(feature = "docs");

fn leak(s: String) -> &'static str {
    Box::leak(s.into_boxed_str())
}
fn leak_docs(v: &[String]) -> &'static [&'static str] {
    let x: Vec<&'static str> = v.iter().map(|s| leak(s.clone())).collect();
    Box::leak(x.into_boxed_slice())
}

#[derive(Clone, Debug)]
struct FieldIn {
    name: Option<String>,
    ty: u32,     // portable: the id; meta: index into the type table below
    type_name: Option<String>,
    docs: Option<(bool, Vec<String>)>, // (always?, lines); portable form ignores the flag
    order: usize,
}

#[derive(Clone, Debug)]
struct VariantIn {
    name: String,
    index: u8,
    fields: Option<(bool, Vec<FieldIn>)>, // (named, fields); None => no .fields call
    docs: Option<(bool, Vec<String>)>,
    unit_ctor: bool,
    discriminant: Option<u64>,
}

fn strs(rng: &mut Rng, n: usize) -> Vec<String> {
    let cfg = Cfg::small(Mode::Arbitrary);
    (0..n).map(|_| gen_string(rng, &cfg)).collect()
}

fn gen_field(rng: &mut Rng, named: bool, meta: bool) -> FieldIn {
    let cfg = Cfg::small(Mode::Arbitrary);
    FieldIn {
        name: if named { Some(gen_string(rng, &cfg)) } else { None },
        ty: if meta { rng.below(META_TYPES) as u32 } else { vcommon::reggen::arbitrary_id(rng) },
        type_name: if rng.flip() { Some(gen_string(rng, &cfg)) } else { None },
        docs: if rng.chance(2, 5) { Some((rng.flip(), strs(rng, rng.clone().below(3)))) } else { None },
        order: rng.below(6),
    }
}

fn gen_fields(rng: &mut Rng, meta: bool) -> (bool, Vec<FieldIn>) {
    let named = rng.flip();
    let n = rng.below(6);
    (named, (0..n).map(|_| gen_field(rng, named, meta)).collect())
}

// ------------------------------------------------------------------------------------------ portable form

fn pfield_builder<N2>(f: FieldBuilder<PortableForm>, x: &FieldIn, named: bool) -> Field<PortableForm>
where
    N2: Sized,
{
    // setters in one of several legal orders; every setter at most once
    let tn = x.type_name.clone();
    macro_rules! docs {
        ($b:expr) => {{
            #[cfg(feature = "docs")]
            {
                match &x.docs {
                    Some((_, d)) => $b.docs_portable(d.clone()),
                    None => $b,
                }
            }
            #[cfg(not(feature = "docs"))]
            {
                $b
            }
        }};
    }
    macro_rules! tname {
        ($b:expr) => {
            match &tn {
                Some(t) => $b.type_name(t.clone()),
                None => $b,
            }
        };
    }
    if named {
        let n = x.name.clone().unwrap();
        match x.order % 4 {
            0 => docs!(tname!(f.name(n).ty(x.ty))).finalize(),
            1 => docs!(tname!(f.ty(x.ty).name(n))).finalize(),
            2 => tname!(docs!(f).ty(x.ty)).name(n).finalize(),
            _ => docs!(tname!(f).name(n)).ty(x.ty).finalize(),
        }
    } else {
        match x.order % 3 {
            0 => docs!(tname!(f.ty(x.ty))).finalize(),
            1 => tname!(docs!(f)).ty(x.ty).finalize(),
            _ => docs!(tname!(f).ty(x.ty)).finalize(),
        }
    }
}

fn expected_pfield(x: &FieldIn) -> Field<PortableForm> {
    let docs = match &x.docs {
        Some((_, d)) if DOCS_ON => d.clone(),
        _ => vec![],
    };
    Field { name: x.name.clone(), ty: x.ty.into(), type_name: x.type_name.clone(), docs }
}

fn build_pfields(named: bool, fs: &[FieldIn]) -> Vec<Field<PortableForm>> {
    // field_portable takes a Fn closure; the finished field is recovered through the builder API only
    if named {
        let mut b = Fields::<PortableForm>::named();
        for x in fs {
            let x = x.clone();
            b = b.field_portable(move |f| {
                let n = x.name.clone().unwrap();
                let tn = x.type_name.clone();
                let f = match x.order % 3 {
                    0 => {
                        let f = f.name(n).ty(x.ty);
                        match tn {
                            Some(t) => f.type_name(t),
                            None => f,
                        }
                    }
                    1 => {
                        let f = f.ty(x.ty).name(n);
                        match tn {
                            Some(t) => f.type_name(t),
                            None => f,
                        }
                    }
                    _ => {
                        let f = match tn {
                            Some(t) => f.type_name(t),
                            None => f,
                        };
                        f.ty(x.ty).name(n)
                    }
                };
                #[cfg(feature = "docs")]
                let f = match &x.docs {
                    Some((_, d)) => f.docs_portable(d.clone()),
                    None => f,
                };
                f
            });
        }
        b.finalize()
    } else {
        let mut b = Fields::<PortableForm>::unnamed();
        for x in fs {
            let x = x.clone();
            b = b.field_portable(move |f| {
                let tn = x.type_name.clone();
                let f = match x.order % 2 {
                    0 => {
                        let f = f.ty(x.ty);
                        match tn {
                            Some(t) => f.type_name(t),
                            None => f,
                        }
                    }
                    _ => {
                        let f = match tn {
                            Some(t) => f.type_name(t),
                            None => f,
                        };
                        f.ty(x.ty)
                    }
                };
                #[cfg(feature = "docs")]
                let f = match &x.docs {
                    Some((_, d)) => f.docs_portable(d.clone()),
                    None => f,
                };
                f
            });
        }
        b.finalize()
    }
}

fn p_vfields<S>(vb: VariantBuilder<PortableForm, S>, v: &VariantIn) -> VariantBuilder<PortableForm, S> {
    match &v.fields {
        Some((named, fs)) => {
            // re-wrap the finished fields through the builder types
            if *named {
                let mut fb = Fields::<PortableForm>::named();
                for x in fs {
                    let x = x.clone();
                    fb = fb.field_portable(move |f| {
                        let f = f.name(x.name.clone().unwrap()).ty(x.ty);
                        let f = match &x.type_name {
                            Some(t) => f.type_name(t.clone()),
                            None => f,
                        };
                        #[cfg(feature = "docs")]
                        let f = match &x.docs {
                            Some((_, d)) => f.docs_portable(d.clone()),
                            None => f,
                        };
                        f
                    });
                }
                vb.fields(fb)
            } else {
                let mut fb = Fields::<PortableForm>::unnamed();
                for x in fs {
                    let x = x.clone();
                    fb = fb.field_portable(move |f| {
                        let f = f.ty(x.ty);
                        let f = match &x.type_name {
                            Some(t) => f.type_name(t.clone()),
                            None => f,
                        };
                        #[cfg(feature = "docs")]
                        let f = match &x.docs {
                            Some((_, d)) => f.docs_portable(d.clone()),
                            None => f,
                        };
                        f
                    });
                }
                vb.fields(fb)
            }
        }
        None => vb,
    }
}

fn p_vdisc<S>(vb: VariantBuilder<PortableForm, S>, v: &VariantIn) -> VariantBuilder<PortableForm, S> {
    match v.discriminant {
        Some(d) => vb.discriminant(d),
        None => vb,
    }
}

fn p_vdocs<S>(vb: VariantBuilder<PortableForm, S>, v: &VariantIn) -> VariantBuilder<PortableForm, S> {
    #[cfg(feature = "docs")]
    let vb = match &v.docs {
        Some((_, d)) => vb.docs_portable(d.clone()),
        None => vb,
    };
    let _ = v;
    vb
}

fn portable_case(rng: &mut Rng, rep: &mut Report, case_id: u64) {
    let cfg = Cfg::small(Mode::Arbitrary);
    let segs = strs(rng, rng.clone().below(4));
    let params: Vec<(String, Option<u32>)> = (0..rng.below(4)).map(|_| (gen_string(rng, &cfg), if rng.flip() { Some(vcommon::reggen::arbitrary_id(rng)) } else { None })).collect();
    let tdocs = if rng.flip() { Some(strs(rng, rng.clone().below(3))) } else { None };
    let is_variant = rng.flip();
    let fields = gen_fields(rng, false);
    let unit = rng.chance(1, 6);
    let variants: Vec<VariantIn> = (0..rng.below(5))
        .map(|_| VariantIn {
            name: gen_string(rng, &cfg),
            index: rng.next_u64() as u8,
            fields: if rng.chance(1, 4) { None } else { Some(gen_fields(rng, false)) },
            docs: if rng.flip() { Some((false, strs(rng, rng.clone().below(3)))) } else { None },
            unit_ctor: rng.chance(1, 5),
            discriminant: if rng.chance(1, 3) { Some(if rng.flip() { rng.below(300) as u64 } else { rng.next_u64() }) } else { None },
        })
        .collect();
    let case = json!({"case": case_id, "form": "portable", "path": segs, "params": params, "docs": tdocs, "variant": is_variant, "fields": format!("{:?}", fields), "variants": format!("{:?}", variants)});
    let built = guard(|| {
        let tp: Vec<TypeParameter<PortableForm>> = params.iter().map(|(n, t)| TypeParameter::new_portable(n.clone(), t.map(Into::into))).collect();
        let b = Type::builder_portable();
        // type_params / docs before or after the path
        let order = case_id % 3;
        let b = if order == 0 { b.type_params(tp.clone()) } else { b };
        #[cfg(feature = "docs")]
        let b = match (&tdocs, order) {
            (Some(d), 0) => b.docs_portable(d.clone()),
            _ => b,
        };
        let b = b.path(Path::from_segments_unchecked(segs.clone()));
        let b = if order != 0 { b.type_params(tp) } else { b };
        #[cfg(feature = "docs")]
        let b = match (&tdocs, order) {
            (Some(d), 1) | (Some(d), 2) => b.docs_portable(d.clone()),
            _ => b,
        };
        if is_variant {
            let mut vs = Variants::<PortableForm>::new();
            for v in &variants {
                if v.unit_ctor {
                    vs = vs.variant_unit(v.name.clone(), v.index);
                    continue;
                }
                let v2 = v.clone();
                vs = vs.variant(v.name.clone(), move |vb| {
                    // `index` is called before, between or after the other setters (see the meta case)
                    let i = v2.index;
                    match (case_id as usize + i as usize) % 4 {
                        0 => p_vdocs(p_vfields(p_vdisc(vb.index(i), &v2), &v2), &v2),
                        1 => p_vdocs(p_vfields(p_vdisc(vb, &v2).index(i), &v2), &v2),
                        2 => p_vdocs(p_vfields(p_vdisc(vb, &v2), &v2).index(i), &v2),
                        _ => p_vdocs(p_vfields(p_vdisc(vb, &v2), &v2), &v2).index(i),
                    }
                });
            }
            b.variant(vs)
        } else if unit {
            b.composite(Fields::<PortableForm>::unit())
        } else if fields.0 {
            let mut fb = Fields::<PortableForm>::named();
            let _ = &mut fb;
            let fs = build_pfields(true, &fields.1);
            // feed the finished list through a composite directly as well as through the builder
            let t1 = {
                let mut fb2 = Fields::<PortableForm>::named();
                for x in &fields.1 {
                    let x = x.clone();
                    fb2 = fb2.field_portable(move |f| {
                        let f = f.name(x.name.clone().unwrap()).ty(x.ty);
                        let f = match &x.type_name {
                            Some(t) => f.type_name(t.clone()),
                            None => f,
                        };
                        #[cfg(feature = "docs")]
                        let f = match &x.docs {
                            Some((_, d)) => f.docs_portable(d.clone()),
                            None => f,
                        };
                        f
                    });
                }
                fb2
            };
            assert_eq!(fs.len(), fields.1.len(), "builder lost or invented fields");
            b.composite(t1)
        } else {
            let mut fb2 = Fields::<PortableForm>::unnamed();
            for x in &fields.1 {
                let x = x.clone();
                fb2 = fb2.field_portable(move |f| {
                    let f = f.ty(x.ty);
                    let f = match &x.type_name {
                        Some(t) => f.type_name(t.clone()),
                        None => f,
                    };
                    #[cfg(feature = "docs")]
                    let f = match &x.docs {
                        Some((_, d)) => f.docs_portable(d.clone()),
                        None => f,
                    };
                    f
                });
            }
            b.composite(fb2)
        }
    });
    let exp_fields = |fs: &[FieldIn]| fs.iter().map(expected_pfield).collect::<Vec<_>>();
    let want_def: TypeDef<PortableForm> = if is_variant {
        TypeDef::Variant(TypeDefVariant {
            variants: variants
                .iter()
                .map(|v| {
                    let fs = if v.unit_ctor { vec![] } else { v.fields.as_ref().map(|(_, f)| exp_fields(f)).unwrap_or_default() };
                    let docs = match (&v.docs, v.unit_ctor) {
                        (Some((_, d)), false) if DOCS_ON => d.clone(),
                        _ => vec![],
                    };
                    Variant { name: v.name.clone(), fields: fs, index: v.index, docs }
                })
                .collect(),
        })
    } else if unit {
        TypeDef::Composite(TypeDefComposite { fields: vec![] })
    } else {
        TypeDef::Composite(TypeDefComposite { fields: exp_fields(&fields.1) })
    };
    let want: Type<PortableForm> = Type {
        path: Path { segments: segs.clone() },
        type_params: params.iter().map(|(n, t)| TypeParameter { name: n.clone(), ty: t.map(Into::into) }).collect(),
        type_def: want_def,
        docs: if DOCS_ON { tdocs.clone().unwrap_or_default() } else { vec![] },
    };
    rep.count("portable_scripts", 1);
    rep.count(if is_variant { "portable_variant_types" } else { "portable_composite_types" }, 1);
    match built {
        Ok(t) => {
            if t != want {
                rep.violation(&diff_key(&format!("{:?}", t), &format!("{:?}", want), &t.docs == &want.docs), format!("portable builder output differs from the arguments supplied\n  built    {:?}\n  expected {:?}", t, want), case);
            }
        }
        Err(p) => rep.violation("C17/builder-panic", format!("portable builder panicked: {}", p), case),
    }
    // individual field builder orders
    for x in fields.1.iter().take(3) {
        let f = pfield_builder::<()>(FieldBuilder::<PortableForm>::new(), x, fields.0);
        if f != expected_pfield(x) {
            rep.violation("C17/field-builder", format!("FieldBuilder output {:?} differs from arguments {:?}", f, x), json!({"case": case_id, "form": "portable"}));
        }
        rep.count("portable_field_builders", 1);
    }
}

fn diff_key(_got: &str, _want: &str, docs_equal: bool) -> String {
    if docs_equal {
        "C17/builder-output-differs".into()
    } else {
        "C17/builder-docs".into()
    }
}

// ------------------------------------------------------------------------------------------ meta form

const META_TYPES: usize = 9;

fn meta_of(k: u32) -> (MetaType, bool) {
    match k {
        0 => (meta_type::<u8>(), false),
        1 => (meta_type::<String>(), false),
        2 => (meta_type::<PhantomData<u8>>(), true),
        3 => (meta_type::<Vec<u16>>(), false),
        4 => (meta_type::<Compact<u32>>(), false),
        5 => (meta_type::<PhantomData<String>>(), true),
        6 => (meta_type::<Option<bool>>(), false),
        7 => (meta_type::<(u8, u16)>(), false),
        _ => (meta_type::<[u8; 4]>(), false),
    }
}

macro_rules! meta_ty {
    ($f:expr, $k:expr) => {
        match $k {
            0 => $f.ty::<u8>(),
            1 => $f.ty::<String>(),
            2 => $f.ty::<PhantomData<u8>>(),
            3 => $f.ty::<Vec<u16>>(),
            4 => $f.compact::<u32>(),
            5 => $f.ty::<PhantomData<String>>(),
            6 => $f.ty::<Option<bool>>(),
            7 => $f.ty::<(u8, u16)>(),
            _ => $f.ty::<[u8; 4]>(),
        }
    };
}

#[derive(Clone, Copy)]
struct MField {
    name: Option<&'static str>,
    ty: u32,
    type_name: Option<&'static str>,
    docs: Option<(bool, &'static [&'static str])>,
    order: usize,
}

fn to_m(x: &FieldIn) -> MField {
    MField {
        name: x.name.clone().map(leak),
        ty: x.ty,
        type_name: x.type_name.clone().map(leak),
        docs: x.docs.as_ref().map(|(a, d)| (*a, leak_docs(d))),
        order: x.order,
    }
}

fn expected_mfield(x: &MField) -> Option<Field<MetaForm>> {
    let (m, phantom) = meta_of(x.ty);
    if phantom {
        return None;
    }
    let docs = match x.docs {
        Some((true, d)) => d.to_vec(),
        Some((false, d)) if DOCS_ON => d.to_vec(),
        _ => vec![],
    };
    Some(Field { name: x.name, ty: m, type_name: x.type_name, docs })
}

fn build_mfields_named(fs: &[MField]) -> scale_info::build::FieldsBuilder<MetaForm, scale_info::build::NamedFields> {
    let mut b = Fields::named();
    for x in fs {
        let x = *x;
        b = b.field(move |f| {
            let n = x.name.unwrap();
            let f = match x.order % 2 {
                0 => meta_ty!(f.name(n), x.ty),
                _ => meta_ty!(f, x.ty).name(n),
            };
            let f = match x.type_name {
                Some(t) => f.type_name(t),
                None => f,
            };
            match x.docs {
                Some((true, d)) => f.docs_always(d),
                Some((false, d)) => f.docs(d),
                None => f,
            }
        });
    }
    b
}

fn build_mfields_unnamed(fs: &[MField]) -> scale_info::build::FieldsBuilder<MetaForm, scale_info::build::UnnamedFields> {
    let mut b = Fields::unnamed();
    for x in fs {
        let x = *x;
        b = b.field(move |f| {
            let f = match (x.type_name, x.order % 2) {
                (Some(t), 0) => meta_ty!(f.type_name(t), x.ty),
                (Some(t), _) => meta_ty!(f, x.ty).type_name(t),
                (None, _) => meta_ty!(f, x.ty),
            };
            match x.docs {
                Some((true, d)) => f.docs_always(d),
                Some((false, d)) => f.docs(d),
                None => f,
            }
        });
    }
    b
}

fn m_vdisc<S>(vb: VariantBuilder<MetaForm, S>, v: &VariantIn) -> VariantBuilder<MetaForm, S> {
    match v.discriminant {
        Some(d) => vb.discriminant(d),
        None => vb,
    }
}

fn m_vfields<S>(vb: VariantBuilder<MetaForm, S>, v: &VariantIn, mf: &[MField]) -> VariantBuilder<MetaForm, S> {
    match &v.fields {
        Some((true, _)) => vb.fields(build_mfields_named(mf)),
        Some((false, _)) => vb.fields(build_mfields_unnamed(mf)),
        None => vb,
    }
}

fn m_vdocs<S>(vb: VariantBuilder<MetaForm, S>, vdocs: Option<(bool, &'static [&'static str])>, index: u8) -> VariantBuilder<MetaForm, S> {
    // without the docs feature the gated setter is documented to do nothing: next to an `always` setter,
    // before or after it, the always-docs stay (with the feature on, which of two setters wins is not specified)
    let gated_too = !DOCS_ON && index % 3 == 0;
    match vdocs {
        Some((true, d)) if gated_too && index % 2 == 0 => vb.docs_always(d).docs(&["given through the gated setter"]),
        Some((true, d)) if gated_too => vb.docs(&["given through the gated setter"]).docs_always(d),
        Some((true, d)) => vb.docs_always(d),
        Some((false, d)) => vb.docs(d),
        None => vb,
    }
}

fn meta_case(rng: &mut Rng, rep: &mut Report, case_id: u64) {
    let idents = ["a", "B", "_c", "r#type", "mod1", "Foo"];
    let segs: Vec<&'static str> = (0..rng.range(1, 4)).map(|_| *rng.pick(&idents)).collect();
    // the path is supplied through one of the constructors. (With a replacement table only tables are used whose
    // replacements are not themselves keys: whether replacements chain is C18's question, not the builders'.)
    let path_via = if segs.len() < 2 { 0 } else { rng.below(4) };
    let table: Vec<(&'static str, &'static str)> = if path_via == 3 {
        let mut t: Vec<(&'static str, &'static str)> = Vec::new();
        for _ in 0..rng.range(1, 3) {
            let k = *rng.pick(&idents);
            let v = *rng.pick(&["X1", "r#fn", "_y"]);
            if !t.iter().any(|e| e.0 == k) {
                t.push((k, v));
            }
        }
        t
    } else {
        Vec::new()
    };
    let pre = segs.clone();
    let segs: Vec<&'static str> = if path_via == 3 { pre.iter().map(|s| table.iter().find(|e| e.0 == *s).map_or(*s, |e| e.1)).collect() } else { segs };
    let params: Vec<(&'static str, Option<u32>)> = (0..rng.below(4)).map(|_| (*rng.pick(&["T", "U", "Idx", ""]), if rng.flip() { Some(rng.below(META_TYPES) as u32) } else { None })).collect();
    let tdocs: Option<(bool, &'static [&'static str])> = if rng.flip() { Some((rng.flip(), leak_docs(&strs(rng, rng.clone().below(3))))) } else { None };
    let is_variant = rng.flip();
    let (named, fs_in) = gen_fields(rng, true);
    let fs: Vec<MField> = fs_in.iter().map(to_m).collect();
    let variants: Vec<(VariantIn, Vec<MField>)> = (0..rng.below(5))
        .map(|_| {
            let v = VariantIn {
                name: (*rng.pick(&["A", "B", "None", "", "Quite_Long_Name"])).to_string(),
                index: rng.next_u64() as u8,
                fields: if rng.chance(1, 4) { None } else { Some(gen_fields(rng, true)) },
                docs: if rng.flip() { Some((rng.flip(), strs(rng, rng.clone().below(3)))) } else { None },
                unit_ctor: rng.chance(1, 5),
                discriminant: if rng.chance(1, 3) { Some(if rng.flip() { rng.below(300) as u64 } else { rng.next_u64() }) } else { None },
            };
            let m = v.fields.as_ref().map(|(_, f)| f.iter().map(to_m).collect()).unwrap_or_default();
            (v, m)
        })
        .collect();
    let case = json!({"case": case_id, "form": "meta", "path": segs, "params": format!("{:?}", params), "variant": is_variant, "named": named, "fields": format!("{:?}", fs_in), "variants": format!("{:?}", variants.iter().map(|v| &v.0).collect::<Vec<_>>())});
    let built = guard(|| {
        let tp: Vec<TypeParameter> = params.iter().map(|(n, t)| TypeParameter::new(n, t.map(|k| meta_of(k).0))).collect();
        let b = Type::builder();
        // the parameter list through a Vec or through a lazy iterator without an exact size hint
        let b = match path_via {
            2 => b.path(Path::new(pre[pre.len() - 1], leak(pre[..pre.len() - 1].join("::")))),
            3 => b.path(Path::new_with_replace(pre[pre.len() - 1], leak(pre[..pre.len() - 1].join("::")), &table)),
            _ => b.path(Path::from_segments(segs.clone()).expect("valid segments")),
        };
        let b = if case_id % 3 == 1 { b.type_params(tp.into_iter().filter(|_| true)) } else { b.type_params(tp) };
        let b = match tdocs {
            Some((true, d)) if !DOCS_ON && case_id % 3 == 0 => b.docs_always(d).docs(&["given through the gated setter"]),
            Some((true, d)) if !DOCS_ON && case_id % 3 == 1 => b.docs(&["given through the gated setter"]).docs_always(d),
            Some((true, d)) => b.docs_always(d),
            Some((false, d)) => b.docs(d),
            None => b,
        };
        if is_variant {
            let mut vs = Variants::new();
            for (v, mf) in &variants {
                let name = leak(v.name.clone());
                if v.unit_ctor {
                    vs = vs.variant_unit(name, v.index);
                    continue;
                }
                let v2 = v.clone();
                let mf = mf.clone();
                let vdocs: Option<(bool, &'static [&'static str])> = v.docs.as_ref().map(|(a, d)| (*a, leak_docs(d)));
                vs = vs.variant(name, move |vb| {
                    // `index` changes the builder's type state: it is called before, between or after the other setters
                    // (what was set before it has to survive the state change)
                    let ipos = (case_id as usize + v2.index as usize) % 4;
                    let i = v2.index;
                    match ipos {
                        0 => m_vdocs(m_vfields(m_vdisc(vb.index(i), &v2), &v2, &mf), vdocs, i),
                        1 => m_vdocs(m_vfields(m_vdisc(vb, &v2).index(i), &v2, &mf), vdocs, i),
                        2 => m_vdocs(m_vfields(m_vdisc(vb, &v2), &v2, &mf).index(i), vdocs, i),
                        _ => m_vdocs(m_vfields(m_vdisc(vb, &v2), &v2, &mf), vdocs, i).index(i),
                    }
                });
            }
            b.variant(vs)
        } else if named {
            b.composite(build_mfields_named(&fs))
        } else {
            b.composite(build_mfields_unnamed(&fs))
        }
    });
    let keep = |d: Option<(bool, &'static [&'static str])>| -> Vec<&'static str> {
        match d {
            Some((true, d)) => d.to_vec(),
            Some((false, d)) if DOCS_ON => d.to_vec(),
            _ => vec![],
        }
    };
    let want_def: TypeDef<MetaForm> = if is_variant {
        TypeDef::Variant(TypeDefVariant {
            variants: variants
                .iter()
                .map(|(v, mf)| {
                    let fsx: Vec<Field<MetaForm>> = if v.unit_ctor || v.fields.is_none() { vec![] } else { mf.iter().filter_map(expected_mfield).collect() };
                    let docs = if v.unit_ctor { vec![] } else { keep(v.docs.as_ref().map(|(a, d)| (*a, leak_docs(d)))) };
                    Variant { name: leak(v.name.clone()), fields: fsx, index: v.index, docs }
                })
                .collect(),
        })
    } else {
        TypeDef::Composite(TypeDefComposite { fields: fs.iter().filter_map(expected_mfield).collect() })
    };
    let want: Type<MetaForm> = Type {
        path: Path { segments: segs.clone() },
        type_params: params.iter().map(|(n, t)| TypeParameter { name: *n, ty: t.map(|k| meta_of(k).0) }).collect(),
        type_def: want_def,
        docs: keep(tdocs),
    };
    rep.count("meta_scripts", 1);
    let phantom_inputs = fs.iter().filter(|f| meta_of(f.ty).1).count() + variants.iter().map(|(_, m)| m.iter().filter(|f| meta_of(f.ty).1).count()).sum::<usize>();
    rep.count("phantom_members_supplied", phantom_inputs as u64);
    match built {
        Ok(t) => {
            if t != want {
                rep.violation(&diff_key("", "", t.docs == want.docs && format!("{:?}", t).matches("docs").count() == format!("{:?}", want).matches("docs").count() && docs_of(&t) == docs_of(&want)), format!("compile-time builder output differs from the arguments supplied\n  built    {:?}\n  expected {:?}", t, want), case);
            }
            // what was supplied survives the conversion to portable form as well (docs included, whatever the docs feature)
            if t == want {
                use scale_info::IntoPortable;
                let p = t.clone().into_portable(&mut scale_info::Registry::new());
                let same_docs = p.docs.iter().map(|s| s.as_str()).collect::<Vec<_>>() == want.docs
                    && match (&p.type_def, &want.type_def) {
                        (TypeDef::Composite(a), TypeDef::Composite(b)) => a.fields.len() == b.fields.len() && a.fields.iter().zip(&b.fields).all(|(x, y)| x.docs.iter().map(|s| s.as_str()).collect::<Vec<_>>() == y.docs && x.name.as_deref() == y.name && x.type_name.as_deref() == y.type_name),
                        (TypeDef::Variant(a), TypeDef::Variant(b)) => {
                            a.variants.len() == b.variants.len()
                                && a.variants.iter().zip(&b.variants).all(|(x, y)| {
                                    x.docs.iter().map(|s| s.as_str()).collect::<Vec<_>>() == y.docs
                                        && x.name == y.name
                                        && x.index == y.index
                                        && x.fields.len() == y.fields.len()
                                        && x.fields.iter().zip(&y.fields).all(|(f, g)| f.docs.iter().map(|s| s.as_str()).collect::<Vec<_>>() == g.docs && f.name.as_deref() == g.name && f.type_name.as_deref() == g.type_name)
                                })
                        }
                        _ => false,
                    };
                let same_params = p.type_params.len() == want.type_params.len() && p.type_params.iter().zip(&want.type_params).all(|(x, y)| x.name == y.name && x.ty.is_some() == y.ty.is_some());
                if !same_docs || !same_params || p.path.segments.iter().map(|s| s.as_str()).collect::<Vec<_>>() != want.path.segments {
                    rep.violation("C17/portable-form-loses-parts", format!("the portable form of a built type does not contain what was supplied\n  portable {:?}\n  supplied {:?}", p, want), json!({"case": case_id, "form": "meta->portable"}));
                }
                rep.count("meta_types_converted", 1);
            }
            // erasure: no member of the output is a PhantomData
            let ph = meta_type::<PhantomData<()>>();
            let listed: Vec<MetaType> = match &t.type_def {
                TypeDef::Composite(c) => c.fields.iter().map(|f| f.ty).collect(),
                TypeDef::Variant(v) => v.variants.iter().flat_map(|x| x.fields.iter().map(|f| f.ty)).collect(),
                _ => vec![],
            };
            if listed.iter().any(|m| *m == ph) {
                rep.violation("C17/phantom-member-listed", "a PhantomData member survives in the builder output".into(), json!({"case": case_id, "form": "meta"}));
            }
        }
        Err(p) => rep.violation("C17/builder-panic", format!("compile-time builder panicked: {}", p), case),
    }
    // plain constructors: tuple definition erases PhantomData members, keeps the others in order
    let ks: Vec<u32> = (0..rng.below(6)).map(|_| rng.below(META_TYPES) as u32).collect();
    let tup = TypeDefTuple::new(ks.iter().map(|k| meta_of(*k).0));
    let want_t: Vec<MetaType> = ks.iter().filter(|k| !meta_of(**k).1).map(|k| meta_of(*k).0).collect();
    if tup.fields != want_t {
        rep.violation("C17/tuple-erasure", format!("TypeDefTuple::new({:?}) lists {} members, expected {} (PhantomData erased, others kept in order)", ks, tup.fields.len(), want_t.len()), json!({"case": case_id, "members": ks}));
    }
    rep.count("tuple_ctor_checks", 1);
}

fn docs_of(t: &Type<MetaForm>) -> Vec<Vec<&'static str>> {
    let mut out = vec![t.docs.clone()];
    match &t.type_def {
        TypeDef::Composite(c) => out.extend(c.fields.iter().map(|f| f.docs.clone())),
        TypeDef::Variant(v) => {
            for x in &v.variants {
                out.push(x.docs.clone());
                out.extend(x.fields.iter().map(|f| f.docs.clone()));
            }
        }
        _ => {}
    }
    out
}

/// C20 at run time: whatever sequence of (legal, compiling) builder calls is made, the result never mixes named and unnamed
/// fields in one composite or variant, and every variant has the index and every field the type that was assigned last.
fn homogeneity_case(rng: &mut Rng, rep: &mut Report, case_id: u64) {
    let calls: Vec<bool> = (0..rng.range(1, 4)).map(|_| rng.flip()).collect(); // true = named
    let idx = rng.next_u64() as u8;
    let calls2 = calls.clone();
    let built = guard(move || {
        Variants::<MetaForm>::new()
            .variant("V", move |v| {
                let mut v = v.index(idx);
                for (k, named) in calls2.iter().enumerate() {
                    v = if *named {
                        v.fields(Fields::named().field(|f| f.ty::<u8>().name("a")).field(|f| f.ty::<u16>().name("b")))
                    } else if k % 2 == 0 {
                        v.fields(Fields::unnamed().field(|f| f.ty::<u32>()))
                    } else {
                        v.fields(Fields::unit())
                    };
                }
                v
            })
            .finalize()
    });
    rep.count("repeated_fields_calls", 1);
    match built {
        Ok(def) => {
            let fs = &def.variants[0].fields;
            let named = fs.iter().filter(|f| f.name.is_some()).count();
            if named != 0 && named != fs.len() {
                rep.violation("C20/builder/mixed-named-unnamed-at-run-time", format!("a variant built by {} successive fields(..) calls mixes {} named and {} unnamed fields", calls.len(), named, fs.len() - named), json!({"case": case_id, "calls_named": calls}));
            }
            if def.variants[0].index != idx {
                rep.violation("C20/builder/index-lost", "the variant does not carry the index that was assigned".into(), json!({"case": case_id}));
            }
        }
        Err(p) => rep.violation("C20/builder/panic", format!("a compiling builder program panicked: {}", p), json!({"case": case_id, "calls_named": calls})),
    }
    // the same for portable form
    let calls3 = calls.clone();
    let built = guard(move || {
        Variants::<PortableForm>::new()
            .variant("V".to_string(), move |v| {
                let mut v = v.index(idx);
                for named in calls3.iter() {
                    v = if *named {
                        v.fields(Fields::<PortableForm>::named().field_portable(|f| f.ty(1u32).name("a".to_string())))
                    } else {
                        v.fields(Fields::<PortableForm>::unnamed().field_portable(|f| f.ty(2u32)).field_portable(|f| f.ty(3u32)))
                    };
                }
                v
            })
            .finalize()
    });
    if let Ok(def) = built {
        let fs = &def.variants[0].fields;
        let named = fs.iter().filter(|f| f.name.is_some()).count();
        if named != 0 && named != fs.len() {
            rep.violation("C20/builder/mixed-named-unnamed-at-run-time", format!("a portable variant built by {} successive fields(..) calls mixes named and unnamed fields", calls.len()), json!({"case": case_id, "calls_named": calls, "form": "portable"}));
        }
    }
}

pub fn run(a: &Args) -> Report {
    let seed = a.u("seed", 1);
    let thorough = a.thorough();
    let cfg = a.run_cfg(if thorough { 3_000_000 } else { 100_000 });
    if a.prop() == "C20" {
        return run_parallel(&cfg, |i, rep| {
            let mut rng = Rng::derive(seed ^ 0x20, i);
            homogeneity_case(&mut rng, rep, i);
            rep.eval(Some(i ^ 0x2020));
            if i < 2 {
                rep.sample(|| json!({"case": i, "kind": "run-time builder script with repeated fields(..) calls"}));
            }
        });
    }
    let mut total = Report::default();
    total.count(if DOCS_ON { "build_docs_on" } else { "build_docs_off" }, 1);
    let body = run_parallel(&cfg, |i, rep| {
        let mut rng = Rng::derive(seed ^ 0x17, i);
        let snapshot = rng.clone();
        if i % 2 == 0 {
            portable_case(&mut rng, rep, i);
        } else {
            meta_case(&mut rng, rep, i);
        }
        let mut k = Vec::new();
        let mut s = snapshot;
        for _ in 0..4 {
            k.extend_from_slice(&s.next_u64().to_le_bytes());
        }
        rep.eval(Some(hash_bytes(&k) ^ DOCS_ON as u64));
        if i < 2 {
            rep.sample(|| json!({"case": i, "form": if i % 2 == 0 { "portable" } else { "meta" }, "docs_feature": DOCS_ON}));
        }
    });
    total.merge(body);
    total
}
