//! C10: retain keeps exactly the reachable sub-registry, renumbered consistently.

use crate::args::Args;
use scale_info::PortableRegistry;
use serde_json::json;
use std::collections::BTreeSet;
use vcommon::prng::{hash_bytes, Rng};
use vcommon::reggen::{self, Cfg, Mode};
use vcommon::report::{guard, run_parallel, Report};
use vcommon::{refcodec, refretain, wf};

/// A long reference chain: entry i mentions entry i+1 (or i-1) through a randomly chosen kind of position.
fn gen_chain(rng: &mut Rng, len: usize) -> PortableRegistry {
    use scale_info::{Field, Path, PortableType, Type, TypeDefArray, TypeDefCompact, TypeDefComposite, TypeDefPrimitive, TypeDefSequence, TypeDefTuple, TypeDefVariant, TypeParameter, Variant};
    let forward = rng.flip();
    let types = (0..len)
        .map(|i| {
            let next: Option<u32> = if forward { if i + 1 < len { Some(i as u32 + 1) } else { None } } else if i > 0 { Some(i as u32 - 1) } else { None };
            let mut params = vec![];
            let def: scale_info::TypeDef<scale_info::form::PortableForm> = match next {
                None => TypeDefPrimitive::U8.into(),
                Some(n) => match rng.below(7) {
                    0 => TypeDefSequence::new(n.into()).into(),
                    1 => TypeDefArray::new(2, n.into()).into(),
                    2 => TypeDefTuple::new_portable(vec![n.into()]).into(),
                    3 => TypeDefComposite::new(vec![Field::new(None, n.into(), None, vec![])]).into(),
                    4 => TypeDefVariant::new(vec![Variant::new("V".to_string(), vec![Field::new(Some("f".to_string()), n.into(), None, vec![])], 0, vec![])]).into(),
                    5 => TypeDefCompact::new(n.into()).into(),
                    _ => {
                        // the only mention is a type parameter
                        params.push(TypeParameter::new_portable("T".to_string(), Some(n.into())));
                        TypeDefComposite::new(vec![]).into()
                    }
                },
            };
            PortableType::new(i as u32, Type::new(Path::from_segments_unchecked(vec![format!("L{}", i)]), params, def, vec![]))
        })
        .collect();
    PortableRegistry { types }
}

pub fn gen_wf(rng: &mut Rng, thorough: bool) -> PortableRegistry {
    gen_wf_case(rng, thorough, u64::MAX)
}

pub fn gen_wf_case(rng: &mut Rng, thorough: bool, case: u64) -> PortableRegistry {
    // the first cases of a run are long reference chains (a kept root with more than 512 / 1024 / 2048 / 4096 types below it)
    const LONG: [usize; 6] = [513, 1025, 1030, 2049, 2100, 4100];
    if (case as usize) < 2 * LONG.len() {
        return gen_chain(rng, LONG[case as usize / 2]);
    }
    if rng.chance(1, 60) {
        let len = *rng.pick(&[10usize, 63, 64, 65, 66, 67, 100, 129, 200, 300, if thorough { 2000 } else { 500 }]);
        return gen_chain(rng, len);
    }
    let k = rng.below(1000);
    let cfg = if k < 600 {
        Cfg::small(Mode::WellFormed)
    } else if k < 990 {
        Cfg::medium(Mode::WellFormed)
    } else if thorough {
        Cfg { mode: Mode::WellFormed, max_types: 300, mid: true, big: false }
    } else {
        Cfg { mode: Mode::WellFormed, max_types: 120, mid: true, big: false }
    };
    reggen::gen_registry(rng, &cfg)
}

pub fn gen_filter(rng: &mut Rng, reg: &PortableRegistry) -> (Vec<u32>, &'static str) {
    let n = reg.types.len() as u32;
    if n == 0 {
        return (vec![], "empty-registry");
    }
    let chain = n > 1 && reg.types[0].ty.path.segments.first().map_or(false, |s| s == "L0");
    if chain && rng.chance(2, 3) {
        return if rng.flip() { (vec![0], "chain-first") } else { (vec![n - 1], "chain-last") };
    }
    match rng.below(9) {
        0 => (vec![], "none"),
        1 => ((0..n).collect(), "all"),
        2 | 3 => (vec![rng.below(n as usize) as u32], "single"),
        4 => {
            let d = *rng.pick(&[1u32, 2, 5, 8]);
            ((0..n).filter(|_| rng.chance(d, 10)).collect(), "random-subset")
        }
        5 => ((0..n).filter(|i| reggen::refs_of(&reg.types[*i as usize].ty).is_empty()).collect(), "leaves"),
        6 => {
            let mut referenced = BTreeSet::new();
            for (i, t) in reg.types.iter().enumerate() {
                for (_, r) in reggen::refs_of(&t.ty) {
                    if r as usize != i {
                        referenced.insert(r);
                    }
                }
            }
            ((0..n).filter(|i| !referenced.contains(i)).collect(), "roots")
        }
        7 => (vec![n - 1], "last"),
        _ => {
            let a = rng.below(n as usize) as u32;
            let b = rng.below(n as usize) as u32;
            (vec![a.min(b), a.max(b)].into_iter().collect::<BTreeSet<_>>().into_iter().collect(), "pair")
        }
    }
}

pub fn run(a: &Args) -> Report {
    let seed = a.u("seed", 1);
    let thorough = a.thorough();
    let prop = a.prop();
    let cfg = a.run_cfg(if thorough { 3_000_000 } else { 100_000 });
    let mut fixed = Report::default();
    if prop == "C01" && cfg.first_case == 0 {
        // a registry whose type table crosses 16384 entries, through every producer
        use scale::{Decode, Encode};
        let n = 16_400usize;
        let mut rng = Rng::derive(seed ^ 0xb17, 1);
        let ids = reggen::IdGen { mode: Mode::WellFormed, shape: reggen::Shape::Sparse, n };
        let small = Cfg::small(Mode::WellFormed);
        let big = PortableRegistry { types: (0..n).map(|k| scale_info::PortableType::new(k as u32, reggen::gen_type(&mut rng, &small, &ids, k, Some(if k % 40 == 0 { 4 } else { 5 })))).collect() };
        let case = || json!({"fixed_large_registry_entries": n});
        match guard(|| PortableRegistry::decode(&mut &big.encode()[..])) {
            Ok(Ok(d)) => match wf::check(&d, true) {
                Ok(_) if d.types.len() == n => fixed.count("large_registry_decoded", 1),
                Ok(_) => fixed.violation("C01/decoded-not-well-formed", format!("a registry of {} entries decodes to {} entries", n, d.types.len()), case()),
                Err(e) => fixed.violation("C01/decoded-not-well-formed", e, case()),
            },
            other => fixed.violation("C01/decode-own-output-fails", format!("{:?}", other.map(|x| x.map(|_| ()).map_err(|e| e.to_string()))), case()),
        }
        // the same bytes through inputs that cannot tell how much is left (streaming readers), and with a depth limit
        let big_bytes = big.encode();
        for (what, res) in [("stream", guard(|| PortableRegistry::decode(&mut scale::IoReader(&big_bytes[..])))), ("chunked-stream", guard(|| PortableRegistry::decode(&mut scale::IoReader(Dribble(&big_bytes[..]))))),
                            ("depth-limit", guard(|| <PortableRegistry as scale::DecodeLimit>::decode_with_depth_limit(64, &mut &big_bytes[..])))] {
            match res {
                Ok(Ok(d)) => match wf::check(&d, true) {
                    Ok(_) if d.types.len() == n => fixed.count("large_registry_decoded_stream", 1),
                    Ok(_) => fixed.violation("C01/decoded-not-well-formed", format!("a registry of {} entries decodes ({} input) to {} entries", n, what, d.types.len()), case()),
                    Err(e) => fixed.violation("C01/decoded-not-well-formed", format!("{} input: {}", what, e), case()),
                },
                other => fixed.violation("C01/decode-own-output-fails", format!("{} input: {:?}", what, other.map(|x| x.map(|_| ()).map_err(|e| e.to_string()))), case()),
            }
        }
        match guard(|| serde_json::from_str::<PortableRegistry>(&serde_json::to_string(&big).unwrap())) {
            Ok(Ok(d)) => match wf::check(&d, true) {
                Ok(_) if d.types.len() == n => fixed.count("large_registry_json", 1),
                _ => fixed.violation("C01/json-decoded-not-well-formed", format!("a registry of {} entries comes back from JSON with {} entries or ill-formed", n, d.types.len()), case()),
            },
            other => fixed.violation("C01/decode-own-output-fails", format!("json: {:?}", other.map(|x| x.map(|_| ()).map_err(|e| e.to_string()))), case()),
        }
        let mut r2 = big.clone();
        match guard(|| r2.retain(|id| id % 3 == 0 || id > 16_380)) {
            Ok(_) => match wf::check(&r2, true) {
                Ok(_) => fixed.count("large_registry_retained", 1),
                Err(e) => fixed.violation("C01/retained-not-closed", e, case()),
            },
            Err(p) => fixed.violation("C01/panic", p, case()),
        }
        let mut b = scale_info::PortableRegistryBuilder::new();
        for t in &big.types {
            b.register_type(t.ty.clone());
        }
        match wf::check(&b.finish(), false) {
            Ok(_) => fixed.count("large_registry_built", 1),
            Err(e) => fixed.violation("C01/builder-not-dense", e, case()),
        }
        fixed.eval(Some(hash_bytes(&refcodec::encode(&big))));
    }
    let light = a.has("light");
    if prop == "C10" && cfg.first_case == 0 && !light {
        // Long histories on ONE thread: whatever retain keeps between calls (scratch tables, counters, stamps) must not leak
        // into a later call. Probed at the periods where 8- and 16-bit counters come round: a large registry is processed,
        // then exactly P-1 small ones, then the large one again, for P in 255, 256, 65535, 65536.
        let mut rng = Rng::derive(seed ^ 0x9e71, 0);
        let large = loop {
            let r = reggen::gen_registry(&mut rng, &Cfg { mode: Mode::WellFormed, max_types: 60, mid: false, big: false });
            if r.types.len() >= 30 {
                break r;
            }
        };
        let small: Vec<PortableRegistry> = (0..4).map(|_| loop {
            let r = reggen::gen_registry(&mut rng, &Cfg::small(Mode::WellFormed));
            if !r.types.is_empty() && r.types.len() <= 6 {
                break r;
            }
        }).collect();
        let all_large: Vec<u32> = (0..large.types.len() as u32).collect();
        let mut calls = 0u64;
        let run_one = |reg: &PortableRegistry, accepted: &[u32], fixed: &mut Report, calls: &mut u64, what: &str| -> bool {
            let mut after = reg.clone();
            *calls += 1;
            let case = || json!({"same_thread_history": true, "call_number": *calls, "step": what, "n_types": reg.types.len(), "accepted": accepted.iter().take(32).collect::<Vec<_>>()});
            match guard(|| after.retain(|id| accepted.contains(&id))) {
                Ok(map) => {
                    if let Err(e) = refretain::check(reg, accepted, &after, &map) {
                        let k = if e.starts_with("result not well-formed") { "C10/ill-formed-result" } else if e.starts_with("map keys differ") { "C10/wrong-key-set" } else if e.starts_with("retained entry") { "C10/entry-not-renamed-original" } else { "C10/map-not-bijection" };
                        fixed.violation(k, format!("call number {} to retain on this thread ({}): {}", *calls, what, e), case());
                        return false;
                    }
                    true
                }
                Err(p) => {
                    fixed.violation("C10/panic", format!("call number {} to retain on this thread ({}) panicked: {}", *calls, what, p), case());
                    false
                }
            }
        };
        'periods: for period in [255u64, 256, 65_535, 65_536] {
            // a call whose filter fails half-way (caught): what it retained so far must not be remembered by the next call
            // (placed before the period starts, so that the two visits of the large registry stay exactly `period` calls apart)
            {
                let mut answered = 0u32;
                let mut victim = large.clone();
                let r = guard(|| {
                    victim.retain(|_| {
                        answered += 1;
                        if answered > 5 {
                            panic!("injected fault: the filter fails");
                        }
                        true
                    })
                });
                if r.is_err() {
                    fixed.count("retain_calls_aborted_by_a_failing_filter", 1);
                }
                calls += 1;
            }
            if !run_one(&large, &all_large, &mut fixed, &mut calls, "large registry, everything accepted") {
                break;
            }
            for k in 0..period - 1 {
                let r = &small[(k % 4) as usize];
                let acc: Vec<u32> = if k % 3 == 0 { vec![0] } else { (0..r.types.len() as u32).collect() };
                if !run_one(r, &acc, &mut fixed, &mut calls, "small registry in between") {
                    break 'periods;
                }
            }
            // exactly `period` calls after its ids were last touched
            let last = vec![large.types.len() as u32 - 1, (large.types.len() / 2) as u32];
            if !run_one(&large, &last, &mut fixed, &mut calls, "large registry again, two ids accepted") || !run_one(&large, &all_large, &mut fixed, &mut calls, "large registry again, everything accepted") {
                break;
            }
            fixed.count("same_thread_period_probes", 1);
        }
        fixed.count("same_thread_history_calls", calls);
        fixed.eval(None);
    }
    let mut body = run_parallel(&cfg, |i, rep| {
        let mut rng = Rng::derive(seed ^ 0x10, i);
        // short form for slow interpreters (other platforms): registries of 33..70 entries, so that ids beyond one machine word occur
        let before = if light {
            loop {
                let r = reggen::gen_registry(&mut rng, &Cfg { mode: Mode::WellFormed, max_types: 70, mid: false, big: false });
                if r.types.len() >= 33 {
                    break r;
                }
            }
        } else {
            gen_wf_case(&mut rng, thorough, i)
        };
        if let Err(e) = wf::check(&before, true) {
            rep.inconclusive(format!("generator produced an ill-formed input in case {}: {}", i, e));
            return;
        }
        let (accepted, fname) = if light {
            let n = before.types.len();
            match i % 3 {
                0 => (vec![rng.below(n) as u32], "single"),
                1 => {
                    let (x, y) = (rng.below(n) as u32, rng.below(n) as u32);
                    (vec![x.min(y), x.max(y)].into_iter().collect::<BTreeSet<_>>().into_iter().collect(), "pair")
                }
                _ => ((0..n as u32).filter(|_| rng.chance(3, 10)).collect(), "random-subset"),
            }
        } else {
            gen_filter(&mut rng, &before)
        };
        let acc: BTreeSet<u32> = accepted.iter().copied().collect();
        let enc = refcodec::encode(&before);
        let mut key = enc.clone();
        for x in &accepted {
            key.extend_from_slice(&x.to_le_bytes());
        }
        let with = refretain::closure(&before, &accepted, true);
        let without = refretain::closure(&before, &accepted, false);
        let nontrivial = !accepted.is_empty() && with.len() > accepted.len() && with.len() < before.types.len();
        rep.eval(if nontrivial { Some(hash_bytes(&key)) } else { None });
        rep.count(&format!("filter_{}", fname), 1);
        if with.len() != without.len() {
            rep.count("reachable_only_through_type_param", 1);
        }
        if before.types.iter().enumerate().any(|(j, t)| with.contains(&(j as u32)) && reggen::refs_of(&t.ty).iter().any(|(_, r)| *r as usize == j)) {
            rep.count("self_reference_retained", 1);
        }
        for j in &with {
            rep.count(&format!("retained_def_{}", reggen::KIND_NAMES[reggen::def_kind(&before.types[*j as usize].ty)]), 1);
        }
        rep.max("max_types", before.types.len() as u64);
        rep.max("max_retained", with.len() as u64);
        if before.types.len() > 1 && before.types[0].ty.path.segments.first().map_or(false, |s| s == "L0") {
            rep.count("chain_registries", 1);
            rep.max("max_chain_retained", with.len() as u64);
        }
        let case = || json!({"case": i, "seed": seed, "filter": fname, "accepted": accepted.iter().take(64).collect::<Vec<_>>(), "registry_hex": enc.iter().take(3000).map(|b| format!("{:02x}", b)).collect::<String>(), "n_types": before.types.len()});
        rep.sample(|| json!({"case": i, "n_types": before.types.len(), "filter": fname, "accepted": accepted.iter().take(16).collect::<Vec<_>>(), "reachable": with.len()}));

        let mut after = before.clone();
        let mut asked: Vec<u32> = Vec::new();
        // one case in five uses a *stateful* predicate that answers `true` for an accepted id only the first time it is asked
        // (FnMut filters are allowed): what it accepted is what it answered `true` to
        let stateful = i % 5 == 4;
        let mut budget = acc.clone();
        let res = guard(|| {
            after.retain(|id| {
                asked.push(id);
                if stateful {
                    budget.remove(&id)
                } else {
                    acc.contains(&id)
                }
            })
        });
        if stateful {
            rep.count("stateful_filters", 1);
        }
        let map = match res {
            Ok(m) => m,
            Err(p) => {
                rep.violation(&format!("{}/panic", prop), format!("retain panicked on a well-formed registry: {}", p), case());
                return;
            }
        };
        if prop == "C01" {
            // C01 judges only that the produced registry is dense and closed
            match wf::check(&after, true) {
                Ok(st) => {
                    rep.count("retained_registries_checked", 1);
                    rep.count("refs_walked", st.refs.iter().sum());
                }
                Err(e) => rep.violation(if e.contains("mentions") { "C01/retained-not-closed" } else { "C01/retained-not-dense" }, e, case()),
            }
            let _ = map;
            return;
        }
        if asked.iter().any(|x| *x as usize >= before.types.len()) {
            rep.violation("C10/filter-asked-foreign-id", "the filter was asked about an id that is not in the registry".into(), case());
        }
        rep.count("filter_calls", asked.len() as u64);
        if let Err(e) = refretain::check(&before, &accepted, &after, &map) {
            let k = if e.starts_with("result not well-formed") {
                "C10/ill-formed-result"
            } else if e.starts_with("map keys differ") {
                "C10/wrong-key-set"
            } else if e.starts_with("retained entry") {
                "C10/entry-not-renamed-original"
            } else {
                "C10/map-not-bijection"
            };
            rep.violation(k, e, case());
        }
        // idempotence-style follow up: retaining everything of the result changes nothing but ids
        if i % 4 == 0 {
            let mut again = after.clone();
            match guard(|| again.retain(|_| true)) {
                Ok(m2) => {
                    let all: Vec<u32> = (0..after.types.len() as u32).collect();
                    if let Err(e) = refretain::check(&after, &all, &again, &m2) {
                        rep.violation("C10/second-retain", format!("retain(all) on a retain result: {}", e), case());
                    }
                    rep.count("second_retain_checked", 1);
                }
                Err(p) => rep.violation("C10/panic", format!("retain(all) on a retain result panicked: {}", p), case()),
            }
        }
    });
    body.merge(fixed);
    body
}

/// A reader that hands out at most three bytes per call (and cannot tell how much is left).
struct Dribble<'a>(&'a [u8]);

impl<'a> std::io::Read for Dribble<'a> {
    fn read(&mut self, buf: &mut [u8]) -> std::io::Result<usize> {
        let n = buf.len().min(3).min(self.0.len());
        buf[..n].copy_from_slice(&self.0[..n]);
        self.0 = &self.0[n..];
        Ok(n)
    }
}
