mod args;
mod builders;
mod codec;
mod decode;
mod identc;
mod retain;
mod schema;
mod table;

use serde_json::json;

#[global_allocator]
static ALLOC: vcommon::alloc::Counting = vcommon::alloc::Counting;

/// Registries frozen from the compiled-in type corpus (filled in by the corpus module).
pub fn corpus_registries() -> Vec<scale_info::PortableRegistry> {
    Vec::new()
}

fn main() {
    let a = args::Args::parse();
    vcommon::report::install_panic_hook();
    let start = std::time::Instant::now();
    let rep = match a.cmd.as_str() {
        "codec" => codec::run(&a),
        "builders" => builders::run(&a),
        "decode" => decode::run(&a),
        "schema" => schema::run(&a),
        "retain" => retain::run(&a),
        "table" => table::run(&a),
        "ident" => identc::run(&a),
        other => {
            eprintln!("unknown subcommand {}", other);
            std::process::exit(64);
        }
    };
    let mut v = rep.to_json(a.has("hashes"));
    v["prop"] = json!(a.prop());
    v["cmd"] = json!(a.cmd);
    v["wall_s"] = json!(start.elapsed().as_secs_f64());
    v["hooks"] = json!(vcommon::HAVE_HOOKS);
    v["docs_feature"] = json!(cfg!(feature = "docs"));
    let out = a.s("out", "-");
    let text = serde_json::to_string(&v).unwrap();
    if out == "-" {
        println!("{}", text);
    } else {
        std::fs::write(&out, text).expect("write report");
    }
}
