#![recursion_limit = "4096"]
#![allow(unused_parens, unused_braces)]
//! C15: print fingerprints of the registry built from a fixed corpus in a fixed order.
/// the hand-written TypeInfo impls of the harness library, compiled into this crate directly
#[allow(dead_code)]
#[path = "../../vcommon/src/hand.rs"]
pub mod hand_impl;
#[allow(dead_code)]
pub mod vcommon {
    pub use crate::hand_impl as hand;
}

#[allow(unused_imports, dead_code)]
mod gen {
    pub mod prelude {
        #[cfg(feature = "bit-vec")]
        pub use bitvec::{
            order::{Lsb0, Msb0},
            vec::BitVec,
        };
        pub use scale::{Compact, Encode, HasCompact};
        pub use crate::vcommon;
        pub use scale_info::TypeInfo;
        pub use std::borrow::Cow;
        pub use std::collections::{BTreeMap, BTreeSet, BinaryHeap, VecDeque};
        pub use std::marker::PhantomData;
        pub use std::num::*;
        pub use std::ops::{Range, RangeInclusive};
        pub use std::rc::Rc;
        pub use std::sync::Arc;
        pub use std::time::Duration;
        #[derive(Clone, Default, Debug)]
        pub struct NoInfo;
    }
    include!(concat!(env!("VERIF_GEN"), "/fp_corpus.rs"));
}

use scale::Encode;
use scale_info::{MetaType, PortableRegistry, Registry, TypeDef};

fn hex(b: &[u8]) -> String {
    let mut s = String::with_capacity(b.len() * 2);
    for x in b {
        s.push_str(&format!("{:02x}", x));
    }
    s
}

fn strip_docs(r: &mut PortableRegistry) {
    for t in r.types.iter_mut() {
        t.ty.docs = Vec::new();
        match &mut t.ty.type_def {
            TypeDef::Composite(c) => {
                for f in c.fields.iter_mut() {
                    f.docs = Vec::new();
                }
            }
            TypeDef::Variant(v) => {
                for x in v.variants.iter_mut() {
                    x.docs = Vec::new();
                    for f in x.fields.iter_mut() {
                        f.docs = Vec::new();
                    }
                }
            }
            _ => {}
        }
    }
}

fn fingerprint(name: &str, metas: Vec<(&'static str, MetaType)>) {
    let mut reg = Registry::new();
    for (_, m) in &metas {
        reg.register_type(m);
    }
    let mut p: PortableRegistry = reg.into();
    let docs_strings: usize = p.types.iter().map(|t| t.ty.docs.len()).sum();
    println!("{} types={} entries={} type_doc_lines={} bytes={}", name, metas.len(), p.types.len(), docs_strings, hex(&p.encode()));
    strip_docs(&mut p);
    println!("{}_nodocs bytes={}", name, hex(&p.encode()));
    // the registry a consumer keeps after pruning is produced metadata too
    let mut kept = p.clone();
    // every third entry, and every bit sequence (so that each kind of definition is among the kept ones)
    let bits: Vec<u32> = p.types.iter().filter(|t| matches!(t.ty.type_def, TypeDef::BitSequence(_))).map(|t| t.id).collect();
    let map = kept.retain(|id| id % 3 == 0 || bits.contains(&id));
    println!("{}_retained_nodocs kept={} bytes={}", name, map.len(), hex(&kept.encode()));
    // the run-time builder fed every (docs-stripped) definition and a copy that differs in one doc line only: docs given as
    // plain data are part of a definition in every build, so each copy is its own entry whatever the features are
    let mut b = scale_info::PortableRegistryBuilder::new();
    let mut distinct: Vec<&scale_info::Type<scale_info::form::PortableForm>> = Vec::new();
    for t in &p.types {
        if !distinct.contains(&&t.ty) {
            distinct.push(&t.ty);
        }
        b.register_type(t.ty.clone());
        let mut twin = t.ty.clone();
        twin.docs.push("a copy that differs in this line only".into());
        b.register_type(twin);
    }
    let built = b.finish();
    println!("{}_builder_twins entries={} expected={} bytes={:016x}", name, built.types.len(), 2 * distinct.len(), fnv(&built.encode()));
}

fn fnv(b: &[u8]) -> u64 {
    let mut h = 0xcbf29ce484222325u64;
    for x in b {
        h ^= *x as u64;
        h = h.wrapping_mul(0x100000001b3);
    }
    h
}

/// A registry built from the first roots of the corpus, docs stripped: (entries, digest)
fn small_registry() -> (usize, u64) {
    let mut reg = Registry::new();
    for (_, m) in gen::metas().iter().take(60) {
        reg.register_type(m);
    }
    let mut p: PortableRegistry = reg.into();
    strip_docs(&mut p);
    (p.types.len(), fnv(&p.encode()))
}

/// Metadata dumped from a destructor that runs while the thread is unwinding (a crash reporter, a test harness).
struct DumpOnDrop;

impl Drop for DumpOnDrop {
    fn drop(&mut self) {
        let (n, d) = small_registry();
        println!("small_while_unwinding entries={} bytes={:016x}", n, d);
    }
}

/// C18 across configurations: the outcome of path construction for a fixed probe list
fn path_probes() {
    let idents = ["Planet", "r#type", "r#r#a", "a b", "", "x7", "7x", "_", "a\u{7f}", "x²"];
    let modules = ["hello::world", "hello:world", "a:b:c", "a", "", "a::", "::a", "r#mod::x", "a::b::c::d", "a:::b"];
    let mut out = String::new();
    for m in modules {
        for i in idents {
            let r = std::panic::catch_unwind(|| scale_info::Path::new(i, m));
            match r {
                Ok(p) => out.push_str(&format!("[{}]", p.segments.join("|"))),
                Err(_) => out.push('!'),
            }
        }
        out.push(';');
    }
    for segs in [vec![], vec!["a"], vec!["a", ""], vec!["r#a", "b"], vec!["a:b"], vec!["é"]] {
        out.push_str(&format!("{:?};", scale_info::Path::from_segments(segs).map(|p| p.segments)));
    }
    println!("paths bytes={}", hex(out.as_bytes()));
}

/// C19 for this feature set: write the generated schema and serialised registries (whole corpus, retained part, every root alone).
#[cfg(feature = "emit-schema")]
fn emit_schema(dir: &str) {
    use std::io::Write;
    std::fs::create_dir_all(dir).expect("emit dir");
    let schema = schemars::schema_for!(PortableRegistry);
    std::fs::write(format!("{}/schema.json", dir), serde_json::to_vec_pretty(&schema).unwrap()).expect("write schema");
    let mut f = std::io::BufWriter::new(std::fs::File::create(format!("{}/docs-0.jsonl", dir)).unwrap());
    let mut n = 0u64;
    let mut emit = |r: &PortableRegistry, origin: &str| {
        let doc = serde_json::to_value(r).expect("serialise");
        writeln!(f, "{}", serde_json::json!({"case": n, "origin": origin, "doc": doc})).unwrap();
        n += 1;
    };
    let metas = gen::metas();
    let mut reg = Registry::new();
    for (_, m) in &metas {
        reg.register_type(m);
    }
    let whole: PortableRegistry = reg.into();
    emit(&whole, "whole corpus");
    let mut kept = whole.clone();
    kept.retain(|id| id % 3 == 0);
    emit(&kept, "retained");
    emit(&PortableRegistry { types: vec![] }, "empty");
    for (_, m) in metas.iter().step_by(3) {
        let mut r = Registry::new();
        r.register_type(m);
        emit(&r.into(), "one root");
    }
    f.flush().unwrap();
    println!("emitted documents={}", n);
}

fn main() {
    #[cfg(feature = "emit-schema")]
    {
        let args: Vec<String> = std::env::args().collect();
        if let Some(k) = args.iter().position(|a| a == "--emit-schema") {
            emit_schema(&args[k + 1]);
            return;
        }
    }
    std::panic::set_hook(Box::new(|_| {}));
    path_probes();
    // a second registry on the same thread, roots in the opposite order, before and after the main one
    {
        let mut rev = gen::metas();
        rev.reverse();
        fingerprint("base_reversed_first", rev);
    }
    fingerprint("base", gen::metas());
    fingerprint("base_again", gen::metas());
    #[cfg(feature = "bit-vec")]
    fingerprint("bitvec", gen::metas_bitvec());
    let (n, d) = small_registry();
    println!("small entries={} bytes={:016x}", n, d);
    let _ = std::panic::catch_unwind(|| {
        let _dump = DumpOnDrop;
        panic!("probe: unwinding starts here");
    });
    let (n, d) = small_registry();
    println!("small_after_unwinding entries={} bytes={:016x}", n, d);
}
