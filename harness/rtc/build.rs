fn main() {
    println!("cargo:rerun-if-changed=/repo/src/verif.rs");
    println!("cargo:rerun-if-changed=/repo/src/lib.rs");
    println!("cargo:rustc-check-cfg=cfg(have_hooks)");
    if std::path::Path::new("/repo/src/verif.rs").exists() {
        let lib = std::fs::read_to_string("/repo/src/lib.rs").unwrap_or_default();
        if lib.contains("pub mod verif") {
            println!("cargo:rustc-cfg=have_hooks");
        }
    }
}
