#![recursion_limit = "4096"]
#![allow(unused_parens, unused_braces)]
mod args;
mod gen;
mod hist;
mod mirror;
mod pairs;
mod values;

use serde_json::json;

#[global_allocator]
static ALLOC: vcommon::alloc::Counting = vcommon::alloc::Counting;

fn main() {
    let a = args::Args::parse();
    vcommon::report::install_panic_hook();
    let start = std::time::Instant::now();
    let rep = match a.cmd.as_str() {
        "hist" => hist::run(&a),
        "values" => values::run(&a),
        "pairs" => pairs::run(&a),
        "mirror" => mirror::run(&a),
        "scan" => mirror::scan(&a),
        "digest" => hist::digest(&a),
        other => {
            eprintln!("unknown subcommand {}", other);
            std::process::exit(64);
        }
    };
    let mut v = rep.to_json(a.has("hashes"));
    v["prop"] = json!(a.prop());
    v["cmd"] = json!(a.cmd);
    v["wall_s"] = json!(start.elapsed().as_secs_f64());
    v["hooks"] = json!(vcommon::HAVE_HOOKS);
    v["docs_feature"] = json!(cfg!(feature = "docs"));
    let out = a.s("out", "-");
    let text = serde_json::to_string(&v).unwrap();
    if out == "-" {
        println!("{}", text);
    } else {
        std::fs::write(&out, text).expect("write report");
    }
}
