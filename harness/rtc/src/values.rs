//! C03 / C04: a decoder that knows only the registry and the SCALE rules must read back every
//! value's encoding exactly.

use crate::args::Args;
use scale_info::{PortableRegistry, Registry, TypeDef, TypeDefPrimitive};
use serde_json::json;
use vcommon::prng::{hash_bytes, Rng};
use vcommon::report::{guard, run_parallel, Report};
use vcommon::val::{show, val_eq, Val};
use vcommon::{getters, valdec};

fn hex(b: &[u8]) -> String {
    b.iter().take(600).map(|x| format!("{:02x}", x)).collect()
}

fn top_level_arity(text: &str) -> Option<(usize, usize)> {
    let t = text.trim();
    if !t.starts_with('(') || !t.ends_with(')') {
        return None;
    }
    let inner = &t[1..t.len() - 1];
    let mut depth = 0i32;
    let mut members: Vec<String> = vec![String::new()];
    for c in inner.chars() {
        match c {
            '<' | '(' | '[' => depth += 1,
            '>' | ')' | ']' => depth -= 1,
            ',' if depth == 0 => {
                members.push(String::new());
                continue;
            }
            _ => {}
        }
        members.last_mut().unwrap().push(c);
    }
    // PhantomData members are erased (C17), trailing comma leaves an empty member. Members that are a transparent
    // wrapper of PhantomData (`Box<PhantomData<_>>`, `&mut PhantomData<_>`) are a grey zone: erased or kept, either is accepted.
    let mut kept = 0;
    let mut optional = 0;
    for m in members.iter().map(|m| m.trim()).filter(|m| !m.is_empty()) {
        let mut t = m;
        let mut wrapped = false;
        loop {
            let next = ["Box<", "Box <", "Rc<", "Rc <", "Arc<", "Arc <", "&'static mut ", "& 'static mut ", "&'static ", "& 'static "].iter().find_map(|p| t.strip_prefix(p));
            match next {
                Some(r) => {
                    wrapped = true;
                    t = r.trim_start();
                }
                None => break,
            }
        }
        if t.starts_with("PhantomData") {
            if wrapped {
                optional += 1;
            }
        } else {
            kept += 1;
        }
    }
    Some((kept, kept + optional))
}

/// first difference between two values, as a path
fn first_diff(a: &Val, b: &Val, path: &mut String) -> bool {
    use Val::*;
    fn fields(x: &[(Option<String>, Val)], y: &[(Option<String>, Val)], path: &mut String) -> bool {
        if x.len() != y.len() {
            path.push_str(&format!("<{} members vs {}>", x.len(), y.len()));
            return true;
        }
        for (i, (p, q)) in x.iter().zip(y).enumerate() {
            if p.0 != q.0 {
                path.push_str(&format!(".{}<name {:?} vs {:?}>", i, p.0, q.0));
                return true;
            }
            let save = path.len();
            path.push_str(&format!(".{}", p.0.clone().unwrap_or_else(|| i.to_string())));
            if first_diff(&p.1, &q.1, path) {
                return true;
            }
            path.truncate(save);
        }
        false
    }
    match (a, b) {
        (Seq(x), Seq(y)) | (Array(x), Array(y)) | (Tuple(x), Tuple(y)) => {
            if x.len() != y.len() {
                path.push_str(&format!("<len {} vs {}>", x.len(), y.len()));
                return true;
            }
            for (i, (p, q)) in x.iter().zip(y).enumerate() {
                let save = path.len();
                path.push_str(&format!("[{}]", i));
                if first_diff(p, q, path) {
                    return true;
                }
                path.truncate(save);
            }
            false
        }
        (Composite(x), Composite(y)) => fields(x, y, path),
        (Variant { name: n1, fields: f1, .. }, Variant { name: n2, fields: f2, .. }) => {
            if n1 != n2 {
                path.push_str(&format!("<variant {} vs {}>", n1, n2));
                return true;
            }
            path.push_str(&format!("::{}", n1));
            fields(f1, f2, path)
        }
        _ => {
            if !val_eq(a, b) {
                path.push_str(&format!("<{} vs {}>", show(a).chars().take(60).collect::<String>(), show(b).chars().take(60).collect::<String>()));
                true
            } else {
                false
            }
        }
    }
}

pub fn run(a: &Args) -> Report {
    let prop = a.prop();
    let seed = a.u("seed", 1);
    let thorough = a.thorough();
    let per_case = a.u("values", if thorough { 400 } else { 100 });
    let es = crate::gen::entries();
    let idx: Vec<usize> = es.iter().enumerate().filter(|(_, e)| (prop == "C03") == e.derived).filter(|(_, e)| prop == "C04" || e.sample.is_some()).map(|(i, _)| i).collect();
    let rounds = a.u("rounds", if thorough { 12 } else { 2 });
    let mut cfg = a.run_cfg(idx.len() as u64 * rounds);
    let n_individual = idx.len() as u64 * rounds;
    // long-lived registries: one registry that sees every in-scope type again and again
    let n_long: u64 = if thorough { 16 } else { 4 };
    if !a.has("case") {
        // every in-scope type `rounds` times on its own, then a quarter as many batch registrations
        cfg.cases = n_individual + n_individual / 4 + n_long;
    }
    let no_bitvec = a.has("no-bitvec");
    let mut total = Report::default();
    total.count("corpus_entries_in_scope", idx.len() as u64);
    let phantomish: Vec<usize> = idx.iter().copied().filter(|j| es[*j].text.contains("PhantomData")).collect();
    // different Rust types whose descriptions are equal (`Option<Box<u8>>` / `Option<u8>`): same deep canonical text, another identity
    let mut by_deep: std::collections::HashMap<&'static str, Vec<usize>> = std::collections::HashMap::new();
    for j in &idx {
        by_deep.entry(es[*j].deep).or_default().push(*j);
    }
    let body = run_parallel(&cfg, |i, rep| {
        if i >= n_individual + n_individual / 4 {
            // One registry, many thousands of registrations: whatever the registry carries from call to call
            // (tables, counters) must not change what a type's id describes, however long it has been in use.
            let mut rng = Rng::derive(seed ^ 0x77, i);
            let mut order: Vec<usize> = idx.clone();
            rng.shuffle(&mut order);
            let passes = (14_000 / order.len().max(1) + 2).max(4);
            let mut r = Registry::new();
            let mut first: Vec<u32> = Vec::new();
            let mut regs = 0u64;
            for pass in 0..passes {
                for (k, j) in order.iter().enumerate() {
                    let meta = (es[*j].meta)();
                    let id = match guard(|| r.register_type(&meta).id) {
                        Ok(id) => id,
                        Err(p) => {
                            rep.violation(&format!("{}/registration-panic", prop), format!("a registry in use for {} registrations panicked on `{}` (pass {}): {}", regs, es[*j].text, pass, p), json!({"case": i, "seed": seed, "long_lived": true, "registrations": regs}));
                            return;
                        }
                    };
                    regs += 1;
                    if pass == 0 {
                        first.push(id);
                    } else if first[k] != id {
                        rep.violation(&format!("{}/long-lived-id-changes", prop), format!("`{}` had id {} and has id {} after {} registrations in the same registry", es[*j].text, first[k], id, regs), json!({"case": i, "seed": seed, "long_lived": true}));
                        return;
                    }
                }
            }
            rep.count("long_lived_registries", 1);
            rep.count("long_lived_registrations", regs);
            let reg: PortableRegistry = r.into();
            for _ in 0..200 {
                let k = rng.below(order.len());
                let e = &es[order[k]];
                if no_bitvec && e.text.contains("BitVec") {
                    continue;
                }
                let Some(sample) = e.sample else { continue };
                let Ok((bytes, model)) = guard(|| sample(&mut rng)) else { return };
                rep.eval(None);
                match guard(|| valdec::decode_exact(&reg, first[k], &bytes)) {
                    Ok(Ok(got)) if val_eq(&got, &model) => rep.count("long_lived_values_decoded", 1),
                    Ok(Ok(got)) => {
                        rep.violation(&format!("{}/value-mismatch", prop), format!("`{}` in a long-lived registry: decoded {} expected {}", e.text, show(&got), show(&model)), json!({"case": i, "seed": seed, "long_lived": true, "type": e.text}));
                        return;
                    }
                    Ok(Err(why)) => {
                        rep.violation(&format!("{}/undecodable", prop), format!("`{}` in a long-lived registry: {}", e.text, why), json!({"case": i, "seed": seed, "long_lived": true, "type": e.text}));
                        return;
                    }
                    Err(p) => {
                        rep.inconclusive(format!("schema-directed decoder panicked: {}", p));
                        return;
                    }
                }
            }
            return;
        }
        if i >= n_individual {
            // several types registered in one `register_types` call: the id handed back for the k-th type must describe the k-th type
            let mut rng = Rng::derive(seed ^ 0x33, i);
            let mut batch: Vec<usize> = (0..rng.range(2, 6)).map(|_| *rng.pick(&idx)).collect();
            if !phantomish.is_empty() && rng.flip() {
                let at = rng.below(batch.len());
                batch.insert(at, *rng.pick(&phantomish));
            }
            // a twin of a member (equal description, other identity) early in the batch, other types after it
            if rng.flip() {
                let k = rng.below(batch.len());
                if let Some(tw) = by_deep.get(es[batch[k]].deep) {
                    let others: Vec<usize> = tw.iter().copied().filter(|j| (es[*j].did)() != (es[batch[k]].did)()).collect();
                    if !others.is_empty() {
                        let t = *rng.pick(&others);
                        batch.insert(rng.below(k + 1), t);
                        batch.push(*rng.pick(&idx));
                        rep.count("batches_with_twin_descriptions", 1);
                    }
                }
            }
            let metas: Vec<scale_info::MetaType> = batch.iter().map(|j| (es[*j].meta)()).collect();
            let mut r = Registry::new();
            let ids: Vec<u32> = match guard(|| r.register_types(metas)) {
                Ok(v) => v.into_iter().map(|s| s.id).collect(),
                Err(p) => {
                    rep.violation(&format!("{}/registration-panic", prop), p, json!({"batch": batch.iter().map(|j| es[*j].text).collect::<Vec<_>>()}));
                    return;
                }
            };
            let case = || json!({"case": i, "seed": seed, "batch": batch.iter().map(|j| es[*j].text).collect::<Vec<_>>(), "ids": ids});
            rep.count("batches_registered", 1);
            if ids.len() != batch.len() {
                rep.violation(&format!("{}/batch-ids", prop), format!("register_types was given {} types and handed back {} ids", batch.len(), ids.len()), case());
                return;
            }
            let reg: PortableRegistry = r.into();
            for (j, id) in batch.iter().zip(&ids) {
                let e = &es[*j];
                if no_bitvec && e.text.contains("BitVec") {
                    continue;
                }
                let Some(sample) = e.sample else { continue };
                for _ in 0..8 {
                    let Ok((bytes, model)) = guard(|| sample(&mut rng)) else { return };
                    rep.eval(None);
                    match guard(|| valdec::decode_exact(&reg, *id, &bytes)) {
                        Ok(Ok(got)) if val_eq(&got, &model) => rep.count("batch_values_decoded", 1),
                        Ok(Ok(got)) => {
                            rep.violation(&format!("{}/batch-value-mismatch", prop), format!("`{}` registered in a batch: the id handed back ({}) describes another value\n  decoded  {}\n  expected {}", e.text, id, show(&got), show(&model)), case());
                            return;
                        }
                        Ok(Err(why)) => {
                            rep.violation(&format!("{}/batch-undecodable", prop), format!("`{}` registered in a batch: the id handed back ({}) does not describe its bytes: {}", e.text, id, why), case());
                            return;
                        }
                        Err(p) => {
                            rep.inconclusive(format!("schema-directed decoder panicked: {}", p));
                            return;
                        }
                    }
                }
            }
            return;
        }
        let e = &es[idx[(i % idx.len() as u64) as usize]];
        if no_bitvec && e.text.contains("BitVec") {
            return;
        }
        let mut rng = Rng::derive(seed ^ 0x03, i);
        let meta = (e.meta)();
        let mut r = Registry::new();
        let id = match guard(|| r.register_type(&meta).id) {
            Ok(id) => id,
            Err(p) => {
                rep.violation(&format!("{}/registration-panic", prop), p, json!({"type": e.text}));
                return;
            }
        };
        let reg: PortableRegistry = r.into();
        rep.count("types_exercised", 1);
        // a consumer reading through the accessor methods must see what a consumer reading the fields sees
        match guard(|| getters::check_registry(&reg).and_then(|n| getters::check_type(&meta.type_info()).map(|m| n + m))) {
            Ok(Ok(n)) => rep.count("accessor_answers_compared", n),
            Ok(Err(why)) => {
                rep.violation(&format!("{}/accessor-disagrees-with-field", prop), format!("`{}`: {}", e.text, why), json!({"type": e.text}));
                return;
            }
            Err(p) => {
                rep.violation(&format!("{}/accessor-panic", prop), p, json!({"type": e.text}));
                return;
            }
        }
        for t in e.tags.split(',').filter(|t| !t.is_empty()) {
            rep.count(&format!("tag_{}", t), 1);
        }
        let Some(sample) = e.sample else {
            // types without a codec encoding: documented shape only
            let ty = reg.resolve(id).unwrap();
            rep.eval(Some(hash_bytes(e.text.as_bytes())));
            rep.count("shape_only_types", 1);
            if e.text == "char" {
                if ty.type_def != TypeDef::Primitive(TypeDefPrimitive::Char) {
                    rep.violation("C04/shape", "char is not described as the char primitive".into(), json!({"type": e.text}));
                }
            } else if let Some((lo, hi)) = top_level_arity(e.text) {
                match &ty.type_def {
                    TypeDef::Tuple(t) if t.fields.len() >= lo && t.fields.len() <= hi => rep.count("tuple_shapes_checked", 1),
                    other => rep.violation("C04/shape", format!("a tuple with {} non-PhantomData members is described as {:?}", lo, other), json!({"type": e.text})),
                }
            }
            return;
        };
        for k in 0..per_case {
            let (bytes, model) = match guard(|| sample(&mut rng)) {
                Ok(x) => x,
                Err(p) => {
                    rep.inconclusive(format!("sampler/encoder panicked for {}: {}", e.text, p));
                    return;
                }
            };
            let mut key = e.text.as_bytes().to_vec();
            key.extend_from_slice(&bytes);
            rep.eval(if bytes.is_empty() { None } else { Some(hash_bytes(&key)) });
            rep.count("bytes_decoded", bytes.len() as u64);
            rep.max("max_value_len", bytes.len() as u64);
            if i < 3 && k == 0 {
                rep.sample(|| json!({"type": e.text, "bytes_hex": hex(&bytes), "model": show(&model).chars().take(300).collect::<String>()}));
            }
            let case = || json!({"case": i, "seed": seed, "type": e.text, "tags": e.tags, "value_no": k, "bytes_hex": hex(&bytes), "model": show(&model)});
            let suffix = if e.tags.split(',').any(|t| t == "encoded_as") { "/encoded_as-member" } else { "" };
            match guard(|| valdec::decode_exact(&reg, id, &bytes)) {
                Err(p) => {
                    rep.inconclusive(format!("schema-directed decoder panicked: {}", p));
                    return;
                }
                Ok(Err(why)) => {
                    rep.violation(&format!("{}/undecodable{}", prop, suffix), format!("`{}`: the description does not decode the value's bytes: {}", e.text, why), case());
                    return;
                }
                Ok(Ok(got)) => {
                    if !val_eq(&got, &model) {
                        let mut path = String::new();
                        first_diff(&got, &model, &mut path);
                        rep.violation(
                            &format!("{}/value-mismatch{}", prop, suffix),
                            format!("`{}`: decoding by the description gives a different value at {} (decoded vs expected)\n  decoded  {}\n  expected {}", e.text, path, show(&got), show(&model)),
                            case(),
                        );
                        return;
                    }
                    if let Val::Variant { index: Some(ix), .. } = &got {
                        if e.derived {
                            rep.count("variant_index_is_first_byte", 1);
                            if bytes.first() != Some(ix) {
                                rep.violation("C03/variant-index", format!("`{}`: metadata index {} is not the first byte {:?}", e.text, ix, bytes.first()), case());
                                return;
                            }
                        }
                    }
                }
            }
        }
    });
    total.merge(body);
    total
}
