//! The generated corpus (gen/corpus.py) is compiled in from $VERIF_GEN/corpus.rs.
pub mod prelude {
    pub use bitvec::{
        order::{Lsb0, Msb0},
        vec::BitVec,
    };
    pub use scale::{Compact, Encode, HasCompact};
    pub use scale_info::TypeInfo;
    pub use std::borrow::Cow;
    pub use std::collections::{BTreeMap, BTreeSet, BinaryHeap, VecDeque};
    pub use std::marker::PhantomData;
    pub use std::num::*;
    pub use std::ops::{Range, RangeInclusive};
    pub use std::rc::Rc;
    pub use std::sync::Arc;
    pub use std::time::Duration;
    pub use vcommon::val::Val;
    /// A type without `TypeInfo` (and without `Encode`): for skipped type parameters.
    #[derive(Clone, Default, Debug)]
    pub struct NoInfo;
}
include!(concat!(env!("VERIF_GEN"), "/corpus.rs"));
