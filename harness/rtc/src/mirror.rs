//! C09: derived metadata mirrors the source declaration. C17(b): PhantomData erasure scan.

use crate::args::Args;
use scale_info::{MetaType, TypeDef};
use serde_json::json;
use std::any::TypeId;
use std::collections::HashSet;
use vcommon::bisim::children;
use vcommon::prng::hash_bytes;
use vcommon::report::{guard, run_parallel, Report, RunCfg};

pub fn run(a: &Args) -> Report {
    let decls = crate::gen::decls();
    let docs_feature = cfg!(feature = "docs");
    let cfg = RunCfg { threads: a.u("threads", 16) as usize, cases: decls.len() as u64, first_case: 0, max_secs: 3600.0, progress: None };
    let mut total = Report::default();
    total.count(if docs_feature { "build_docs_on" } else { "build_docs_off" }, 1);
    let body = run_parallel(&cfg, |i, rep| {
        let d = &decls[i as usize];
        rep.eval(Some(hash_bytes(d.inst.as_bytes()) ^ docs_feature as u64));
        rep.count(["capture_default", "capture_always", "capture_never"][d.capture as usize], 1);
        if i < 3 {
            rep.sample(|| json!({"instantiation": d.inst, "path": d.path, "docs_feature": docs_feature}));
        }
        match guard(|| d.check(docs_feature)) {
            Ok(Ok(st)) => {
                rep.count("members_compared", st.fields);
                rep.count("variants_compared", st.variants);
                rep.count("doc_lines_compared", st.docs_lines);
            }
            Ok(Err((k, m))) => rep.violation(&k, m, json!({"instantiation": d.inst, "docs_feature": docs_feature})),
            Err(p) => rep.violation("C09/type_info-panics", format!("{}: type_info() panicked: {}", d.inst, p), json!({"instantiation": d.inst})),
        }
    });
    total.merge(body);
    total
}

/// C17 (b): in every definition reachable from the corpus no member is a PhantomData.
pub fn scan(a: &Args) -> Report {
    let es = crate::gen::entries();
    let phantom: TypeId = TypeId::of::<<std::marker::PhantomData<u8> as scale_info::TypeInfo>::Identity>();
    let mut rep = Report::default();
    let mut seen: HashSet<TypeId> = HashSet::new();
    let mut stack: Vec<(MetaType, &'static str)> = es.iter().map(|e| ((e.meta)(), e.text)).collect();
    let _ = a;
    while let Some((m, origin)) = stack.pop() {
        if !seen.insert(m.type_id()) {
            continue;
        }
        let ty = m.type_info();
        let is_member_kind = matches!(ty.type_def, TypeDef::Composite(_) | TypeDef::Variant(_) | TypeDef::Tuple(_));
        let mut members = 0;
        for (k, c) in children(&ty) {
            // positions 1 composite field, 2 variant field, 5 tuple element
            if matches!(k, 1 | 2 | 5) {
                members += 1;
                if c.type_id() == phantom {
                    rep.violation(
                        "C17/phantom-member-listed",
                        format!("a definition reachable from `{}` (path {:?}) lists a PhantomData as a {}", origin, ty.path.segments, ["", "field", "variant field", "", "", "tuple element"][k as usize]),
                        json!({"reachable_from": origin, "path": ty.path.segments}),
                    );
                }
            }
            stack.push((c, origin));
        }
        rep.eval(if is_member_kind && members > 0 { Some(hash_bytes(format!("{:?}", m.type_id()).as_bytes())) } else { None });
        rep.count("definitions_scanned", 1);
        rep.count("members_scanned", members);
    }
    rep.sample(|| json!({"scanned_from_entries": es.len()}));
    // ... and nothing else is erased: a derived definition lists exactly the members of the declaration that are neither
    // skipped nor PhantomData (a member whose type is merely *named* PhantomData, or comes through a macro, is a member)
    let docs_feature = cfg!(feature = "docs");
    for d in crate::gen::decls() {
        match guard(|| d.check(docs_feature)) {
            Ok(Ok(st)) => {
                rep.count("derived_declarations_compared", 1);
                rep.count("derived_members_compared", st.fields);
            }
            Ok(Err((k, m))) if k == "C09/members" || k == "C09/variants" || k == "C09/member-type" => {
                rep.violation("C17/derive-members-differ-from-declaration", m, json!({"instantiation": d.inst}));
            }
            Ok(Err(_)) => rep.count("derived_declarations_differing_in_other_respects", 1),
            Err(p) => rep.violation("C17/derive-members-differ-from-declaration", format!("{}: type_info() panicked: {}", d.inst, p), json!({"instantiation": d.inst})),
        }
    }
    rep
}
