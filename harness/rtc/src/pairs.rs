//! C16: MetaType equality is type identity, identities are coherent.

use crate::args::Args;
use scale_info::{MetaType, PortableRegistry, Registry};
use serde_json::json;
use std::any::TypeId;
use std::cmp::Ordering;
use std::collections::HashMap;
use std::hash::{Hash, Hasher};
use vcommon::prng::hash_bytes;
use vcommon::report::{guard, run_parallel, Report, RunCfg};

fn h(m: &MetaType) -> u64 {
    #[allow(deprecated)]
    let mut s = std::collections::hash_map::DefaultHasher::new();
    m.hash(&mut s);
    s.finish()
}

/// "Does this type have type info?" decided at compile time without failing to compile when it has none
/// (autoref specialisation): types outside the corpus grammar join the pairs as soon as an impl for them exists.
struct Probe<T: ?Sized>(std::marker::PhantomData<T>);
trait ViaImpl {
    fn probe(&self) -> Option<(MetaType, TypeId)>;
}
impl<T: scale_info::TypeInfo + 'static + ?Sized> ViaImpl for Probe<T> {
    fn probe(&self) -> Option<(MetaType, TypeId)> {
        Some((scale_info::meta_type::<T>(), TypeId::of::<<T as scale_info::TypeInfo>::Identity>()))
    }
}
trait NoImpl {
    fn probe(&self) -> Option<(MetaType, TypeId)> {
        None
    }
}
impl<T: ?Sized> NoImpl for &Probe<T> {}

macro_rules! probes {
    ($($t:ty),* $(,)?) => { vec![$((stringify!($t), (&Probe::<$t>(std::marker::PhantomData)).probe())),*] };
}

fn probed() -> Vec<(&'static str, Option<(MetaType, TypeId)>)> {
    use std::cell::{Cell, RefCell};
    use std::collections::{HashMap, HashSet, LinkedList};
    use std::num::Wrapping;
    use std::sync::{Mutex, RwLock};
    probes![
        LinkedList<u8>, LinkedList<u16>, LinkedList<String>, HashMap<u8, u16>, HashSet<u8>, HashSet<String>, Cell<u8>, RefCell<u8>, Mutex<u8>, RwLock<u8>, Wrapping<u8>, Wrapping<u32>,
        std::cmp::Reverse<u8>, std::pin::Pin<Box<u8>>, std::rc::Weak<u8>, std::sync::Weak<u8>, std::ops::RangeFrom<u8>, std::ops::RangeTo<u8>, std::ops::RangeToInclusive<u8>, std::ops::RangeFull,
        std::ops::Bound<u8>, std::task::Poll<u8>, std::time::Instant, std::time::SystemTime, std::net::Ipv4Addr, std::path::PathBuf, std::ffi::CString, std::ffi::OsString, Box<str>, Box<[u16]>,
        std::rc::Rc<str>, std::sync::Arc<str>, std::rc::Rc<[u8]>, std::sync::Arc<[u8]>, std::borrow::Cow<'static, [u16]>, f32, f64, usize, isize, (),
        std::sync::atomic::AtomicU8, std::sync::atomic::AtomicBool, std::mem::ManuallyDrop<u8>, std::mem::MaybeUninit<u8>, std::num::Saturating<u8>, std::convert::Infallible,
        std::collections::BTreeMap<String, u8>, std::collections::BTreeSet<u16>, std::collections::BinaryHeap<u8>, std::collections::VecDeque<String>
    ]
}

pub fn run(a: &Args) -> Report {
    let mut es = crate::gen::entries();
    // concurrent first use: before anything else in this process has created a MetaType, eight threads create the MetaTypes of
    // the same types at the same moment (a barrier in front of every type); whatever thread made them, MetaTypes of one
    // identity are equal / Equal / hash alike, MetaTypes of two identities are not
    let mut early = Report::default();
    {
        let nthreads = 8;
        let subset: Vec<usize> = (0..es.len()).step_by((es.len() / 400).max(1)).collect();
        let barrier = std::sync::Barrier::new(nthreads);
        let per_thread: Vec<Vec<MetaType>> = std::thread::scope(|sc| {
            let hs: Vec<_> = (0..nthreads)
                .map(|_| {
                    sc.spawn(|| {
                        let mut v = Vec::with_capacity(subset.len());
                        for j in &subset {
                            barrier.wait();
                            v.push((es[*j].meta)());
                        }
                        v
                    })
                })
                .collect();
            hs.into_iter().map(|h| h.join().expect("worker")).collect()
        });
        let ids: Vec<TypeId> = subset.iter().map(|j| (es[*j].did)()).collect();
        'outer: for x in 0..subset.len() {
            for t in 1..nthreads {
                let (p, q) = (per_thread[0][x], per_thread[t][x]);
                if p != q || p.cmp(&q) != Ordering::Equal || h(&p) != h(&q) {
                    early.violation("C16/recreated-differs", format!("MetaTypes of `{}` created by two threads at the same moment are not equal / do not compare Equal / hash differently", es[subset[x]].text), json!({"a": es[subset[x]].text, "concurrent_first_use": true}));
                    break 'outer;
                }
            }
            for y in 0..subset.len() {
                let (p, q) = (per_thread[x % nthreads][x], per_thread[(x + y) % nthreads][y]);
                let same = ids[x] == ids[y];
                if (p == q) != same || (p.cmp(&q) == Ordering::Equal) != same {
                    early.violation(if same { "C16/unequal-but-same-identity" } else { "C16/ord-inconsistent-with-eq" }, format!("`{}` and `{}` (MetaTypes first created concurrently by several threads): == is {}, cmp is {:?}, identities are {}", es[subset[x]].text, es[subset[y]].text, p == q, p.cmp(&q), if same { "the same" } else { "different" }), json!({"a": es[subset[x]].text, "b": es[subset[y]].text, "concurrent_first_use": true}));
                    break 'outer;
                }
            }
        }
        early.count("concurrent_first_use_types", subset.len() as u64);
        early.count("concurrent_first_use_threads", nthreads as u64);
    }
    // types outside the corpus grammar that turn out to have type info join the pairs
    let mut extra_metas: Vec<(MetaType, TypeId)> = Vec::new();
    for (text, found) in probed() {
        early.count("types_probed_for_an_impl", 1);
        if let Some((m, d)) = found {
            if !es.iter().any(|e| e.text == text) {
                early.count("probed_types_with_an_impl_outside_the_corpus", 1);
                es.push(vcommon::corpus::Entry::probe(text));
                extra_metas.push((m, d));
            }
        }
    }
    let n = es.len() as u64;
    let n_corpus = es.len() - extra_metas.len();
    let mut metas: Vec<MetaType> = es.iter().take(n_corpus).map(|e| (e.meta)()).collect();
    let mut dids: Vec<TypeId> = es.iter().take(n_corpus).map(|e| (e.did)()).collect();
    for (m, d) in &extra_metas {
        metas.push(*m);
        dids.push(*d);
    }
    let cfg = RunCfg { threads: a.u("threads", 16) as usize, cases: n, first_case: a.u("case", 0), max_secs: a.f("max-secs", 3600.0), progress: None };
    let cfg = if a.has("case") { RunCfg { cases: 1, threads: 1, ..cfg } } else { cfg };
    let mut total = Report::default();
    total.merge(early);
    let body = run_parallel(&cfg, |i, rep| {
        let i = i as usize;
        let (ma, da) = (metas[i], dids[i]);
        if ma.type_id() != da {
            rep.violation("C16/type_id-not-declared-identity", format!("MetaType of `{}` carries a type id that is not TypeId::of::<Identity>", es[i].text), json!({"a": es[i].text}));
        }
        let copy = ma;
        if copy != ma || copy.cmp(&ma) != Ordering::Equal || h(&copy) != h(&ma) {
            rep.violation("C16/copy-differs", format!("a copy of the MetaType of `{}` is not equal to it", es[i].text), json!({"a": es[i].text}));
        }
        // a second, independently created MetaType of the same type
        let again = if i < n_corpus { (es[i].meta)() } else { metas[i] };
        if again != ma || h(&again) != h(&ma) {
            rep.violation("C16/recreated-differs", format!("two MetaTypes created for `{}` are not equal", es[i].text), json!({"a": es[i].text}));
        }
        for j in 0..metas.len() {
            let (mb, db) = (metas[j], dids[j]);
            let same = da == db;
            let mut key = es[i].text.as_bytes().to_vec();
            key.push(0);
            key.extend_from_slice(es[j].text.as_bytes());
            rep.eval(if i != j { Some(hash_bytes(&key)) } else { None });
            let case = || json!({"a": es[i].text, "b": es[j].text, "same_declared_identity": same});
            let eq = ma == mb;
            if eq != same {
                rep.violation(if eq { "C16/equal-but-different-identity" } else { "C16/unequal-but-same-identity" }, format!("`{}` == `{}` is {} but their declared identities are {}", es[i].text, es[j].text, eq, if same { "the same" } else { "different" }), case());
                continue;
            }
            if (ma != mb) == eq {
                rep.violation("C16/ne-inconsistent", "!= is not the negation of ==".into(), case());
            }
            let c = ma.cmp(&mb);
            if (c == Ordering::Equal) != eq {
                rep.violation("C16/ord-inconsistent-with-eq", format!("cmp gives {:?} while == gives {}", c, eq), case());
            }
            if mb.cmp(&ma) != c.reverse() {
                rep.violation("C16/ord-not-antisymmetric", "cmp(a,b) is not the reverse of cmp(b,a)".into(), case());
            }
            if ma.partial_cmp(&mb) != Some(c) {
                rep.violation("C16/partial-cmp", "partial_cmp disagrees with cmp".into(), case());
            }
            if eq && h(&ma) != h(&mb) {
                rep.violation("C16/hash-inconsistent", "equal MetaTypes hash differently".into(), case());
            }
            if same {
                rep.count("same_identity_pairs", 1);
                if i < j {
                    // coherence: equal definitions, and either registration order gives the same registry
                    let (ta, tb) = (ma.type_info(), mb.type_info());
                    if ta != tb {
                        rep.violation("C16/incoherent-definitions", format!("`{}` and `{}` declare the same identity but return different definitions", es[i].text, es[j].text), case());
                    }
                    let r1: Result<PortableRegistry, _> = guard(|| {
                        let mut r = Registry::new();
                        r.register_type(&ma);
                        r.register_type(&mb);
                        r.into()
                    });
                    let r2: Result<PortableRegistry, _> = guard(|| {
                        let mut r = Registry::new();
                        r.register_type(&mb);
                        r.register_type(&ma);
                        r.into()
                    });
                    match (r1, r2) {
                        (Ok(x), Ok(y)) => {
                            if x != y {
                                rep.violation("C16/order-of-aliases-matters", format!("registering `{}` then `{}` gives a different registry than the other order", es[i].text, es[j].text), case());
                            }
                            rep.count("alias_order_pairs_checked", 1);
                        }
                        _ => rep.violation("C16/registration-panic", "registering a pair of aliases panicked".into(), case()),
                    }
                }
            } else {
                rep.count("different_identity_pairs", 1);
            }
        }
        // transitivity over a subset
        if i < 150 {
            let m = metas.len().min(150);
            for j in 0..m {
                for k in 0..m {
                    if ma <= metas[j] && metas[j] <= metas[k] && !(ma <= metas[k]) {
                        rep.violation("C16/ord-not-transitive", "a<=b, b<=c but not a<=c".into(), json!({"a": es[i].text, "b": es[j].text, "c": es[k].text}));
                    }
                }
            }
            rep.count("transitivity_triples", (m * m) as u64);
        }
    });
    total.merge(body);
    // sort stability / total order: sorting any permutation gives the same sequence of identities
    let mut v1 = metas.clone();
    let mut v2: Vec<MetaType> = metas.iter().rev().copied().collect();
    // (the standard library may panic when it notices that a comparison is not a total order)
    let sorted = guard(|| {
        v1.sort();
        v2.sort();
    });
    if let Err(p) = sorted {
        total.violation("C16/ord-not-a-total-order", format!("sorting the corpus of MetaTypes panicked: {}", p), json!({}));
    } else {
        if v1.iter().map(|m| m.type_id()).collect::<Vec<_>>() != v2.iter().map(|m| m.type_id()).collect::<Vec<_>>() {
            total.violation("C16/sort-unstable", "sorting the corpus from two different initial orders gives different results".into(), json!({}));
        }
        // a sorted sequence has no inversion at any distance (this is transitivity over the whole corpus)
        let name_of = |m: &MetaType| metas.iter().position(|x| x.type_id() == m.type_id()).map(|k| es[k].text).unwrap_or("?");
        'inv: for x in 0..v1.len() {
            for y in x + 1..v1.len() {
                if v1[x] > v1[y] {
                    total.violation("C16/ord-not-transitive", format!("after sorting, `{}` at position {} is greater than `{}` at position {}", name_of(&v1[x]), x, name_of(&v1[y]), y), json!({"a": name_of(&v1[x]), "b": name_of(&v1[y])}));
                    break 'inv;
                }
            }
        }
        total.count("sorted_pairs_checked", (v1.len() * (v1.len().saturating_sub(1)) / 2) as u64);
    }
    // ordered and hashed collections keep every identity they were given, once
    {
        let n_classes = dids.iter().collect::<std::collections::HashSet<_>>().len();
        let res = guard(|| {
            let bt: std::collections::BTreeSet<MetaType> = metas.iter().copied().collect();
            let hs: std::collections::HashSet<MetaType> = metas.iter().copied().collect();
            let missing_bt = metas.iter().position(|m| !bt.contains(m));
            let missing_hs = metas.iter().position(|m| !hs.contains(m));
            (bt.len(), hs.len(), missing_bt, missing_hs)
        });
        match res {
            Ok((bl, hl, mb, mh)) => {
                if bl != n_classes || mb.is_some() {
                    total.violation("C16/ordered-set-loses-members", format!("a BTreeSet of the corpus holds {} MetaTypes for {} identities{}", bl, n_classes, mb.map(|k| format!("; `{}` is not found in it", es[k].text)).unwrap_or_default()), json!({}));
                }
                if hl != n_classes || mh.is_some() {
                    total.violation("C16/hash-set-loses-members", format!("a HashSet of the corpus holds {} MetaTypes for {} identities", hl, n_classes), json!({}));
                }
                total.count("collections_checked", 2);
            }
            Err(p) => total.violation("C16/ord-not-a-total-order", format!("building ordered / hashed sets of MetaTypes panicked: {}", p), json!({})),
        }
    }
    // transitivity on random triples drawn from the whole corpus (named, unnamed, derived, hand-written mixed)
    {
        let mut rng = vcommon::prng::Rng::derive(a.u("seed", 1) ^ 0x16, 0);
        let nn = metas.len();
        for _ in 0..2_000_000u32 {
            let (x, y, z) = (rng.below(nn), rng.below(nn), rng.below(nn));
            if metas[x] <= metas[y] && metas[y] <= metas[z] && !(metas[x] <= metas[z]) {
                total.violation("C16/ord-not-transitive", format!("`{}` <= `{}` and `{}` <= `{}` but not `{}` <= `{}`", es[x].text, es[y].text, es[y].text, es[z].text, es[x].text, es[z].text), json!({"a": es[x].text, "b": es[y].text, "c": es[z].text}));
                break;
            }
        }
        total.count("random_transitivity_triples", 2_000_000);
    }
    let mut classes: HashMap<TypeId, Vec<&str>> = HashMap::new();
    for (e, d) in es.iter().zip(&dids) {
        classes.entry(*d).or_default().push(e.text);
    }
    total.count("identity_classes", classes.len() as u64);
    total.count("identity_classes_with_aliases", classes.values().filter(|v| v.len() > 1).count() as u64);
    if let Some(big) = classes.values().max_by_key(|v| v.len()) {
        total.sample(|| json!({"largest_identity_class": big.iter().take(12).collect::<Vec<_>>()}));
    }
    total.sample(|| json!({"pair": [es[0].text, es[es.len() - 1].text]}));
    total
}
