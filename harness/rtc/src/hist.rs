//! Registration histories over the type corpus: C01, C02, C05, C11.

use crate::args::Args;
use scale::{Decode, Encode};
use scale_info::{form::PortableForm, IntoPortable, MetaType, PortableRegistry, Registry, Type};
use serde_json::json;
use std::any::TypeId;
use std::collections::{BTreeMap, HashMap, HashSet};
use vcommon::bisim::{self, Bisim};
use vcommon::corpus::Entry;
use vcommon::prng::{hash_bytes, Rng};
use vcommon::report::{guard, run_parallel, Report};
use vcommon::{hand, refcodec, refretain, reggen, wf};

#[derive(Clone, Debug)]
pub enum Op {
    Reg(usize),
    Batch(Vec<usize>),
    /// registry.map_into_portable(vec![type_info()]): converts without interning the type itself
    MapType(usize),
    /// registry.map_into_portable(type_info().type_params)
    MapParams(usize),
    /// registry.map_into_portable(the fields / variants of type_info())
    MapMembers(usize),
    /// register_type with the failpoint set: a `type_info()` somewhere below panics, the caller catches the unwind and goes on
    RegFault(usize),
}

impl Op {
    fn show(&self, es: &[Entry]) -> String {
        match self {
            Op::Reg(i) => format!("register_type::<{}>", es[*i].text),
            Op::Batch(v) => format!("register_types[{}]", v.iter().map(|i| es[*i].text).collect::<Vec<_>>().join(" | ")),
            Op::MapType(i) => format!("map_into_portable([type_info::<{}>])", es[*i].text),
            Op::MapParams(i) => format!("map_into_portable(type_params of {})", es[*i].text),
            Op::MapMembers(i) => format!("map_into_portable(fields / variants of {})", es[*i].text),
            Op::RegFault(i) => format!("register_type::<{}> with an injected panic in a member's type_info(), caught", es[*i].text),
        }
    }
}

pub type Snap = Vec<(u32, Type<PortableForm>)>;

fn snapshot(r: &Registry) -> Snap {
    r.types().map(|(k, v)| (k.id, v.clone())).collect()
}

pub fn freeze(snap: &Snap) -> PortableRegistry {
    PortableRegistry { types: snap.iter().map(|(i, t)| scale_info::PortableType::new(*i, t.clone())).collect() }
}

pub struct Exec {
    /// ids returned per op (roots only; MapType/MapParams return none)
    pub returned: Vec<Vec<u32>>,
    pub snaps: Vec<Snap>,
    pub mapped: Vec<Option<Vec<Type<PortableForm>>>>,
    pub registry: Registry,
    pub hook_events: Vec<Vec<String>>,
    /// hash of the registry's own `Debug` rendering after every op (C05 only)
    pub debug_views: Vec<u64>,
}

/// Execute a history on a fresh registry. Snapshots after every op when `snaps` is set.
pub fn execute(es: &[Entry], ops: &[Op], want_snaps: bool, rep: &mut Report, prop: &str) -> Result<Exec, String> {
    let mut reg = if ops.len() % 2 == 0 { Registry::new() } else { Registry::default() };
    let mut ex = Exec { returned: vec![], snaps: vec![], mapped: vec![], registry: Registry::new(), hook_events: vec![], debug_views: vec![] };
    #[cfg(have_hooks)]
    let mut mon = HookMonitor::default();
    // after an injected fault the registry legitimately holds reserved ids without a definition: the quiescent-point
    // invariants (one definition per id) are not asserted from then on
    let mut faulted = false;
    for (k, op) in ops.iter().enumerate() {
        #[cfg(have_hooks)]
        scale_info::verif::start();
        let mut mapped = None;
        let ids: Vec<u32> = match op {
            Op::Reg(i) => {
                let m = (es[*i].meta)();
                hand::counting(true);
                let id = reg.register_type(&m).id;
                hand::counting(false);
                vec![id]
            }
            Op::Batch(v) => {
                let ms: Vec<MetaType> = v.iter().map(|i| (es[*i].meta)()).collect();
                hand::counting(true);
                let ids = reg.register_types(ms).into_iter().map(|s| s.id).collect();
                hand::counting(false);
                ids
            }
            Op::MapType(i) => {
                let t = (es[*i].meta)().type_info();
                hand::counting(true);
                mapped = Some(reg.map_into_portable(vec![t]));
                hand::counting(false);
                vec![]
            }
            Op::RegFault(i) => {
                let m = (es[*i].meta)();
                hand::set_fault(true);
                let r = guard(|| reg.register_type(&m).id);
                hand::set_fault(false);
                faulted = true;
                rep.count(if r.is_err() { "registrations_aborted_by_injected_fault" } else { "fault_armed_but_not_reached" }, 1);
                vec![]
            }
            Op::MapParams(i) => {
                let ps = (es[*i].meta)().type_info().type_params;
                hand::counting(true);
                let _ = reg.map_into_portable(ps);
                hand::counting(false);
                vec![]
            }
            Op::MapMembers(i) => {
                let t = (es[*i].meta)().type_info();
                hand::counting(true);
                match t.type_def {
                    scale_info::TypeDef::Composite(c) => {
                        let _ = reg.map_into_portable(c.fields);
                    }
                    scale_info::TypeDef::Variant(v) => {
                        let _ = reg.map_into_portable(v.variants);
                    }
                    other => {
                        let _ = reg.map_into_portable(vec![other]);
                    }
                }
                hand::counting(false);
                vec![]
            }
        };
        #[cfg(have_hooks)]
        {
            let evs = scale_info::verif::take();
            rep.count("hook_events", evs.len() as u64);
            if let Err(e) = mon.feed(&evs) {
                return Err(format!("hook monitor after op {}: {}", k, e));
            }
            if !faulted {
                if let Err(e) = reg.verif_invariants() {
                    return Err(format!("registry invariant after op {}: {}", k, e));
                }
                rep.count("hook_invariant_checks", 1);
            }
        }
        let _ = (k, prop, faulted);
        ex.returned.push(ids);
        ex.mapped.push(mapped);
        if want_snaps {
            ex.snaps.push(snapshot(&reg));
            if prop == "C05" {
                ex.debug_views.push(hash_bytes(format!("{:?}", reg).as_bytes()));
            }
        }
    }
    #[cfg(have_hooks)]
    {
        if !faulted {
            if let Err(e) = mon.quiescent() {
                return Err(format!("hook monitor at the end: {}", e));
            }
        }
    }
    ex.registry = reg;
    Ok(ex)
}

/// Online checker of the hook event stream (section 4 of DESIGN.md).
#[cfg(have_hooks)]
#[derive(Default)]
pub struct HookMonitor {
    seen: HashMap<TypeId, u32>,
    stored_ids: HashSet<u32>,
    stored_types: HashSet<TypeId>,
    interned_new: u64,
    stores: u64,
}

#[cfg(have_hooks)]
impl HookMonitor {
    pub fn feed(&mut self, evs: &[scale_info::verif::Event]) -> Result<(), String> {
        use scale_info::verif::Event;
        for e in evs {
            match e {
                Event::Intern { type_id, inserted, id, table_len_after } => {
                    if *inserted {
                        self.interned_new += 1;
                        if *id as usize + 1 != *table_len_after {
                            return Err(format!("append-only ids: new id {} but table length {}", id, table_len_after));
                        }
                        if self.seen.insert(*type_id, *id).is_some() {
                            return Err(format!("interner reported an already known type identity as new (id {})", id));
                        }
                    } else {
                        match self.seen.get(type_id) {
                            Some(prev) if prev == id => {}
                            Some(prev) => return Err(format!("known type identity returned id {} but had id {}", id, prev)),
                            None => return Err(format!("interner reported an unknown type identity as known (id {})", id)),
                        }
                    }
                }
                Event::DefStore { type_id, id, already_present, defs_len_before: _ } => {
                    self.stores += 1;
                    if *already_present {
                        return Err(format!("definition for id {} stored although one was present (overwritten)", id));
                    }
                    if !self.stored_ids.insert(*id) {
                        return Err(format!("definition stored twice for id {}", id));
                    }
                    if !self.stored_types.insert(*type_id) {
                        return Err(format!("definition of one type identity evaluated and stored twice (id {})", id));
                    }
                }
            }
        }
        Ok(())
    }
    pub fn quiescent(&self) -> Result<(), String> {
        if self.interned_new != self.stores {
            return Err(format!("{} ids interned but {} definitions stored", self.interned_new, self.stores));
        }
        Ok(())
    }
}

/// Seeded history over the corpus: small working set, heavy repetition, aliases first or target first.
static TWIN_TABLE: std::sync::OnceLock<Vec<Vec<usize>>> = std::sync::OnceLock::new();

/// entries (other than `i`) with a different identity but an identical definition when registered alone
fn twins_of(i: usize) -> Option<&'static Vec<usize>> {
    TWIN_TABLE.get().and_then(|t| t.get(i)).filter(|v| !v.is_empty())
}

pub fn init_twins(es: &[Entry]) {
    TWIN_TABLE.get_or_init(|| {
        let mut key: Vec<(u64, TypeId)> = Vec::new();
        for e in es {
            // (registration may panic on a broken tree: such entries have no twins; the checks proper will report it)
            let m = (e.meta)();
            let Ok((id, reg)) = guard(|| {
                let mut r = Registry::new();
                let id = r.register_type(&m).id;
                let reg: PortableRegistry = r.into();
                (id, reg)
            }) else {
                key.push((key.len() as u64 ^ 0xbeef_0000_0000, (e.did)()));
                continue;
            };
            // (a broken tree may not even resolve the id it just handed out: such entries simply have no twins)
            match reg.resolve(id).cloned() {
                Some(mut t) => {
                    for x in reggen::refs_mut(&mut t) {
                        *x = 0;
                    }
                    key.push((type_hash(&t), (e.did)()));
                }
                None => key.push((key.len() as u64 ^ 0xdead_0000_0000, (e.did)())),
            }
        }
        let mut by: HashMap<u64, Vec<usize>> = HashMap::new();
        for (i, (h, _)) in key.iter().enumerate() {
            by.entry(*h).or_default().push(i);
        }
        (0..es.len()).map(|i| by[&key[i].0].iter().copied().filter(|j| key[*j].1 != key[i].1).take(8).collect()).collect()
    });
}

/// entries that differ only in their outermost constructor (`Range<u8>` / `RangeInclusive<u8>`, `Vec<X>` / `BTreeSet<X>` ...)
fn sibling_key(text: &str) -> &str {
    match text.find('<') {
        Some(p) => &text[p..],
        None => "",
    }
}

pub fn gen_history(es: &[Entry], by_shallow: &HashMap<&'static str, Vec<usize>>, rng: &mut Rng, only_reg: bool) -> Vec<Op> {
    let ws_n = rng.range(1, 8);
    let mut ws: Vec<usize> = Vec::new();
    for _ in 0..ws_n {
        let i = rng.below(es.len());
        ws.push(i);
        // bring in a sibling: same arguments under another outermost constructor
        if rng.chance(1, 3) && !sibling_key(es[i].text).is_empty() {
            let k = sibling_key(es[i].text);
            let sibs: Vec<usize> = es.iter().enumerate().filter(|(j, e)| *j != i && sibling_key(e.text) == k).map(|(j, _)| j).collect();
            if !sibs.is_empty() {
                let j = *rng.pick(&sibs);
                if rng.flip() {
                    ws.push(j);
                } else {
                    ws.insert(0, j);
                }
            }
        }
        // bring in a corpus neighbour (families are adjacent in the core corpus: the 8 BitVec kinds, the ranges, ...)
        if rng.chance(1, 4) {
            let j = (i + es.len() + rng.range(1, 3) - if rng.flip() { 0 } else { 4 }) % es.len();
            ws.push(j);
        }
        // bring in a twin: a different Rust type whose definition is identical
        if rng.chance(1, 3) {
            if let Some(tw) = twins_of(i) {
                let j = *rng.pick(tw);
                ws.push(j);
            }
        }
        // bring in aliases of the same canonical identity
        if rng.chance(1, 3) {
            if let Some(al) = by_shallow.get(es[i].shallow) {
                if al.len() > 1 {
                    let j = *rng.pick(al);
                    if rng.flip() {
                        ws.push(j);
                    } else {
                        ws.insert(0, j);
                    }
                }
            }
        }
    }
    let n_ops = rng.range(1, 24);
    let mut ops = Vec::new();
    for _ in 0..n_ops {
        let i = *rng.pick(&ws);
        let k = if only_reg { rng.below(7) } else { rng.below(11) };
        ops.push(match k {
            0..=4 => Op::Reg(i),
            5 | 6 => Op::Batch((0..rng.range(0, 4)).map(|_| *rng.pick(&ws)).collect()),
            7 | 8 => Op::MapType(i),
            9 => Op::MapParams(i),
            _ => Op::MapMembers(i),
        });
    }
    ops
}

fn roots_of(es: &[Entry], ops: &[Op]) -> Vec<(MetaType, bool)> {
    let mut out = Vec::new();
    for op in ops {
        match op {
            Op::Reg(i) => out.push(((es[*i].meta)(), true)),
            Op::Batch(v) => out.extend(v.iter().map(|i| ((es[*i].meta)(), true))),
            Op::MapType(i) => out.push(((es[*i].meta)(), false)),
            Op::RegFault(_) => {}
            Op::MapParams(i) => {
                for p in (es[*i].meta)().type_info().type_params {
                    if let Some(m) = p.ty {
                        out.push((m, true));
                    }
                }
            }
            Op::MapMembers(i) => {
                // everything the definition part mentions gets interned (type parameters are not converted here)
                let t = (es[*i].meta)().type_info();
                for (k, m) in bisim::children(&t) {
                    if k != 0 {
                        out.push((m, true));
                    }
                }
            }
        }
    }
    out
}

fn type_hash(t: &Type<PortableForm>) -> u64 {
    // reference encoding of a single-entry registry: independent of the library's Encode
    hash_bytes(&refcodec::encode(&PortableRegistry { types: vec![scale_info::PortableType::new(0, t.clone())] }))
}

/// Try to build the id bijection between two registries starting from paired roots.
pub fn isomorphic(a: &PortableRegistry, b: &PortableRegistry, roots: &[(u32, u32)]) -> Result<(), String> {
    if a.types.len() != b.types.len() {
        return Err(format!("{} entries vs {}", a.types.len(), b.types.len()));
    }
    let mut f: BTreeMap<u32, u32> = BTreeMap::new();
    let mut g: BTreeMap<u32, u32> = BTreeMap::new();
    let mut stack: Vec<(u32, u32)> = roots.to_vec();
    while let Some((x, y)) = stack.pop() {
        match (f.get(&x), g.get(&y)) {
            (Some(y0), _) if *y0 != y => return Err(format!("id {} would map to both {} and {}", x, y0, y)),
            (_, Some(x0)) if *x0 != x => return Err(format!("ids {} and {} would both map to {}", x0, x, y)),
            (Some(_), Some(_)) => continue,
            _ => {}
        }
        f.insert(x, y);
        g.insert(y, x);
        let ta = a.resolve(x).ok_or_else(|| format!("id {} missing in first registry", x))?;
        let tb = b.resolve(y).ok_or_else(|| format!("id {} missing in second registry", y))?;
        let ra = reggen::refs_of(ta);
        let rb = reggen::refs_of(tb);
        if ra.len() != rb.len() || ra.iter().zip(&rb).any(|(p, q)| p.0 != q.0) {
            return Err(format!("entries {} and {} have different reference structure", x, y));
        }
        // content equal modulo ids: zero all ids and compare
        let mut za = ta.clone();
        let mut zb = tb.clone();
        for r in reggen::refs_mut(&mut za) {
            *r = 0;
        }
        for r in reggen::refs_mut(&mut zb) {
            *r = 0;
        }
        if za != zb {
            return Err(format!("entries {} and {} differ in content", x, y));
        }
        for (p, q) in ra.iter().zip(&rb) {
            stack.push((p.1, q.1));
        }
    }
    if f.len() != a.types.len() {
        return Err(format!("only {} of {} entries are reachable from the roots", f.len(), a.types.len()));
    }
    Ok(())
}

pub fn run(a: &Args) -> Report {
    let prop = a.prop();
    let seed = a.u("seed", 1);
    let thorough = a.thorough();
    let cfg = a.run_cfg(if thorough { 100_000 } else { 4_000 });
    let es = crate::gen::entries();
    let mut by_shallow: HashMap<&'static str, Vec<usize>> = HashMap::new();
    for (i, e) in es.iter().enumerate() {
        by_shallow.entry(e.shallow).or_default().push(i);
    }
    init_twins(&es);
    let mut total = Report::default();
    total.count("corpus_entries", es.len() as u64);
    total.count("corpus_entries_with_twins", (0..es.len()).filter(|i| twins_of(*i).is_some()).count() as u64);
    total.count("corpus_alias_classes_with_2plus", by_shallow.values().filter(|v| v.len() > 1).count() as u64);

    if prop == "C02" {
        // Two registries alive at once, nested on one thread: `NestInner::type_info()` builds a private registry of three roots
        // while the outer registry is evaluating it. What the inner registry holds must be what the same roots give anywhere else.
        let _ = hand::take_nested();
        let outer = guard(|| {
            let mut r = Registry::new();
            let id = r.register_type(&scale_info::meta_type::<hand::NestOuter>()).id;
            (id, PortableRegistry::from(r))
        });
        let nested = hand::take_nested();
        let want = hand::nest_reference();
        match (outer, nested) {
            (Ok((id, reg)), Some(got)) => {
                if got != want {
                    total.violation("C02/registry-nested-in-type_info", format!("a registry built inside a type_info() that another registry was evaluating holds different metadata ({} bytes) than the same roots registered on their own ({} bytes)", got.len(), want.len()), json!({"fixed": "nested registries"}));
                }
                let mut bs = Bisim::default();
                if let Err(e) = bs.conforms(&scale_info::meta_type::<hand::NestOuter>(), id, &reg, 0) {
                    total.violation(&format!("C02/{}", classify_bisim(&e)), format!("outer registry of the nested pair: {}", e), json!({"fixed": "nested registries"}));
                }
                total.count("nested_registry_pairs_checked", 1);
            }
            (Err(p), _) => total.violation("C02/registration-panic", format!("registering a type whose type_info() uses a registry of its own panicked: {}", p), json!({"fixed": "nested registries"})),
            (_, None) => total.inconclusive("the nested-registry probe did not run".into()),
        }
    }
    let n_long: u64 = if thorough { 6 } else { 2 };
    // entries whose registration reaches the failpoint, and entries made of the types around it
    let faulty: Vec<usize> = es.iter().enumerate().filter(|(_, e)| e.text.contains("FaultyParent")).map(|(j, _)| j).collect();
    let faulty_related: Vec<usize> = es.iter().enumerate().filter(|(_, e)| e.text.contains("Faulty") || e.text == "[i16; 7]" || e.text == "i16" || e.text == "i8" || e.text == "char").map(|(j, _)| j).collect();
    let body = run_parallel(&cfg, |i, rep| {
        let mut rng = Rng::derive(seed ^ 0x01, i);
        if i >= es.len() as u64 && i < es.len() as u64 + n_long && !a.has("case-random") {
            long_lived(&es, &mut rng, rep, &prop, i, seed);
            return;
        }
        // the first cases walk the whole corpus deterministically so that every entry is a root at least once
        let ops: Vec<Op> = if (i as usize) < es.len() && !a.has("case-random") {
            let j = i as usize;
            let mut v = vec![Op::Reg(j)];
            if let Some(al) = by_shallow.get(es[j].shallow) {
                for k in al.iter().take(6) {
                    v.push(Op::Reg(*k));
                }
            }
            v.push(Op::Reg(j));
            v
        } else {
            let mut ops = gen_history(&es, &by_shallow, &mut rng, prop == "C11" && i % 2 == 0);
            if prop == "C11" && i % 8 == 3 && !faulty.is_empty() {
                // fault injection: a registration that fails half-way (caught by the caller) in the middle of the history,
                // with the types involved also registered normally before or after it
                let mut side = rng.clone();
                let at = side.below(ops.len() + 1);
                ops.insert(at, Op::RegFault(*side.pick(&faulty)));
                for _ in 0..side.range(1, 3) {
                    let at = side.below(ops.len() + 1);
                    ops.insert(at, Op::Reg(*side.pick(&faulty_related)));
                }
            }
            ops
        };
        let trace: Vec<String> = ops.iter().map(|o| o.show(&es)).collect();
        let case = || json!({"case": i, "seed": seed, "history": trace});
        let mut hk = Vec::new();
        for o in &ops {
            hk.extend_from_slice(format!("{:?};", o).as_bytes());
        }
        hand::reset_evals();
        let ex = match guard(|| execute(&es, &ops, true, rep, &prop)) {
            Ok(Ok(ex)) => ex,
            Ok(Err(e)) => {
                let key = if e.contains("evaluated and stored twice") || e.contains("overwritten") || e.contains("stored twice") {
                    format!("{}/hook-store-once", if prop == "C11" { "C11" } else { "C05" })
                } else if e.contains("append-only") || e.contains("returned id") {
                    format!("{}/hook-append-only", if prop == "C05" { "C05" } else { "C11" })
                } else {
                    format!("{}/hook-invariant", prop)
                };
                // hook findings are attributed to the property they shadow; other properties ignore them
                if key.starts_with(&prop) {
                    rep.violation(&key, e, case());
                } else {
                    rep.count("hook_findings_for_other_properties", 1);
                }
                return;
            }
            Err(p) => {
                rep.violation(&format!("{}/registration-panic", prop), format!("registration panicked: {}", p), case());
                return;
            }
        };
        for (k, op) in ops.iter().enumerate() {
            if let Op::Batch(v) = op {
                if ex.returned[k].len() != v.len() {
                    rep.violation(&format!("{}/register_types-length", prop), format!("register_types was given {} types and returned {} ids (op {})", v.len(), ex.returned[k].len(), k), case());
                    return;
                }
            }
        }
        let evals = hand::evals();
        let last = ex.snaps.last().cloned().unwrap_or_default();
        let reg = freeze(&last);
        let roots = roots_of(&es, &ops);
        let nontrivial = last.len() >= 2;
        rep.eval(if nontrivial { Some(hash_bytes(&hk)) } else { None });
        rep.max("max_registry_len", last.len() as u64);
        rep.count("ops_executed", ops.len() as u64);
        for o in &ops {
            rep.count(match o {
                Op::Reg(_) => "op_register_type",
                Op::Batch(_) => "op_register_types",
                Op::MapType(_) => "op_map_into_portable_type",
                Op::MapParams(_) => "op_map_into_portable_params",
                Op::MapMembers(_) => "op_map_into_portable_members",
                Op::RegFault(_) => "op_register_type_with_injected_fault",
            }, 1);
        }
        for (_, t) in &last {
            rep.count(&format!("def_{}", reggen::KIND_NAMES[reggen::def_kind(t)]), 1);
        }
        if evals.keys().any(|k| ["SelfRec", "MutA", "MutB", "Cyc1", "Cyc2", "Cyc3"].contains(k)) {
            rep.count("cyclic_type_registered", 1);
        }
        if evals.contains_key("ParamOnly") || evals.contains_key("PCycA") || evals.contains_key("PCycB") {
            rep.count("type_first_met_as_type_parameter", 1);
        }
        if i % 997 == 0 {
            rep.sample(|| json!({"case": i, "history": trace.iter().take(12).collect::<Vec<_>>(), "entries": last.len()}));
        }

        match prop.as_str() {
            "C01" => {
                // in place, after every op
                for (k, s) in ex.snaps.iter().enumerate() {
                    let r = freeze(s);
                    match wf::check(&r, true) {
                        Ok(st) => {
                            rep.count("registries_checked_in_place", 1);
                            rep.count("refs_walked", st.refs.iter().sum());
                            for (j, n) in st.refs.iter().enumerate() {
                                rep.count(&format!("refs_{}", wf::REF_KIND_NAMES[j]), *n);
                            }
                        }
                        Err(e) => {
                            rep.violation(if e.contains("mentions") { "C01/registry-not-closed" } else { "C01/registry-not-dense" }, format!("after op {}: {}", k, e), case());
                            return;
                        }
                    }
                }
                // frozen form
                let frozen: PortableRegistry = match guard(|| PortableRegistry::from(ex.registry)) {
                    Ok(r) => r,
                    Err(p) => {
                        rep.violation("C01/freeze-panic", p, case());
                        return;
                    }
                };
                if let Err(e) = wf::check(&frozen, true) {
                    rep.violation(if e.contains("mentions") { "C01/frozen-not-closed" } else { "C01/frozen-not-dense" }, e, case());
                    return;
                }
                if frozen != reg {
                    rep.violation("C01/frozen-differs-from-types-iterator", "PortableRegistry::from(registry) differs from the registry's own listing".into(), case());
                }
                // a registry overwritten in place with another one (Clone::clone_from) is that other one, nothing of the old value remains
                if let Some(earlier) = ex.snaps.get(ex.snaps.len() / 2) {
                    let mut dst = freeze(earlier);
                    // make the old value different in the parts a copy has to replace
                    for t in dst.types.iter_mut() {
                        for p in t.ty.type_params.iter_mut() {
                            p.ty = Some(9_999.into());
                        }
                        t.ty.docs.push("old value".into());
                    }
                    match guard(|| dst.clone_from(&frozen)) {
                        Ok(()) => {
                            if dst != frozen {
                                rep.violation("C01/clone-from-not-well-formed", "after `dst.clone_from(&src)` dst differs from src".into(), case());
                            } else if let Err(e) = wf::check(&dst, true) {
                                rep.violation("C01/clone-from-not-well-formed", e, case());
                            }
                            rep.count("producer_clone_from", 1);
                        }
                        Err(p) => rep.violation("C01/freeze-panic", format!("clone_from panicked: {}", p), case()),
                    }
                }
                rep.count("producer_from_registry", 1);
                // a prefix replayed into a fresh registry
                if ops.len() > 1 {
                    let cut = rng.range(1, ops.len() - 1);
                    if let Ok(Ok(ex2)) = guard(|| execute(&es, &ops[..cut], false, rep, &prop)) {
                        let fr: PortableRegistry = ex2.registry.into();
                        if let Err(e) = wf::check(&fr, true) {
                            rep.violation("C01/prefix-not-well-formed", format!("prefix of {} ops: {}", cut, e), case());
                        }
                        rep.count("prefix_replays_checked", 1);
                    }
                }
                // decoding its own output
                let bytes = frozen.encode();
                match guard(|| PortableRegistry::decode(&mut &bytes[..])) {
                    Ok(Ok(d)) => {
                        if let Err(e) = wf::check(&d, true) {
                            rep.violation("C01/decoded-not-well-formed", e, case());
                        }
                        rep.count("producer_decode", 1);
                    }
                    other => rep.violation("C01/decode-own-output-fails", format!("{:?}", other.map(|x| x.map(|_| ()))), case()),
                }
                match guard(|| serde_json::from_value::<PortableRegistry>(serde_json::to_value(&frozen).unwrap())) {
                    Ok(Ok(d)) => {
                        if let Err(e) = wf::check(&d, true) {
                            rep.violation("C01/json-decoded-not-well-formed", e, case());
                        }
                        rep.count("producer_json", 1);
                    }
                    other => rep.violation("C01/decode-own-output-fails", format!("json: {:?}", other.map(|x| x.map(|_| ()).map_err(|e| e.to_string()))), case()),
                }
                // retain on it
                if !frozen.types.is_empty() {
                    let n = frozen.types.len();
                    let acc: Vec<u32> = (0..n as u32).filter(|_| rng.chance(1, 3)).collect();
                    let set: HashSet<u32> = acc.iter().copied().collect();
                    let mut after = frozen.clone();
                    match guard(|| after.retain(|id| set.contains(&id))) {
                        Ok(map) => {
                            if let Err(e) = wf::check(&after, true) {
                                rep.violation("C01/retained-not-well-formed", e, case());
                            } else if let Err(e) = refretain::check(&frozen, &acc, &after, &map) {
                                rep.count("retain_spec_mismatch_seen_in_C01_run", 1);
                                let _ = e;
                            }
                            rep.count("producer_retain", 1);
                        }
                        Err(p) => rep.violation("C01/retain-panic", p, case()),
                    }
                }
            }
            "C02" => {
                let mut bs = Bisim::default();
                for (k, op) in ops.iter().enumerate() {
                    let metas: Vec<MetaType> = match op {
                        Op::Reg(j) => vec![(es[*j].meta)()],
                        Op::Batch(v) => v.iter().map(|j| (es[*j].meta)()).collect(),
                        _ => vec![],
                    };
                    for (m, id) in metas.iter().zip(&ex.returned[k]) {
                        if let Err(e) = bs.conforms(m, *id, &reg, 0) {
                            rep.violation(&format!("C02/{}", classify_bisim(&e)), format!("root of op {} (id {}): {}", k, id, e), case());
                            return;
                        }
                        rep.count("roots_checked", 1);
                    }
                    if let (Op::MapType(j), Some(out)) = (op, &ex.mapped[k]) {
                        // the converted type itself is not interned: compare it directly, children are paired as usual
                        let m = (es[*j].meta)().type_info();
                        let r = bs.compare(&m, &out[0], &reg, 0, "map_into_portable output");
                        if let Err(e) = r {
                            rep.violation(&format!("C02/{}", classify_bisim(&e)), format!("map_into_portable output of op {}: {}", k, e), case());
                            return;
                        }
                        rep.count("mapped_types_checked", 1);
                    }
                }
                rep.count("types_compared", bs.types_compared);
                rep.count("fields_compared", bs.fields_compared);
                rep.count("cycles_cut", bs.cycles_cut);
                rep.max("max_graph_depth", bs.max_depth as u64);
            }
            "C05" => {
                // (a) re-registration
                let mut roots_so_far: Vec<(MetaType, bool)> = Vec::new();
                for (k, op) in ops.iter().enumerate() {
                    if let Op::Reg(j) = op {
                        let m = (es[*j].meta)();
                        let present = bisim::reachable(&roots_so_far).contains(&(es[*j].did)());
                        if present && k > 0 {
                            if ex.snaps[k] != ex.snaps[k - 1] {
                                rep.violation("C05/reregistration-changes-registry", format!("op {} registers a type that is already present but the registry changed ({} -> {} entries)", k, ex.snaps[k - 1].len(), ex.snaps[k].len()), case());
                                return;
                            }
                            rep.count("reregistrations_checked", 1);
                            // ... and nothing else a user can observe of the registry value: its Debug rendering and `==`
                            if ex.debug_views[k] != ex.debug_views[k - 1] {
                                rep.violation("C05/reregistration-changes-registry", format!("op {} registers a type that is already present: the listing is unchanged but the registry's `{{:?}}` rendering differs before and after", k), case());
                                return;
                            }
                            rep.count("reregistration_debug_views_compared", 1);
                            if k + 1 == ops.len() || rng.chance(1, 6) {
                                let two = guard(|| (execute(&es, &ops[..k], false, rep, "C05x"), execute(&es, &ops[..=k], false, rep, "C05x")));
                                if let Ok((Ok(a), Ok(b))) = two {
                                    if a.registry != b.registry {
                                        rep.violation("C05/reregistration-changes-registry", format!("the registry built by ops 0..{} and the one built by ops 0..={} (op {} registers a type already present) list the same entries but compare unequal with `==`", k, k, k), case());
                                        return;
                                    }
                                    rep.count("reregistration_eq_compared", 1);
                                }
                            }
                        }
                        let _ = m;
                    }
                    roots_so_far.extend(roots_of(&es, std::slice::from_ref(op)));
                }
                // same MetaType => same id, always
                let mut id_of: HashMap<usize, u32> = HashMap::new();
                for (k, op) in ops.iter().enumerate() {
                    let js: Vec<usize> = match op {
                        Op::Reg(j) => vec![*j],
                        Op::Batch(v) => v.clone(),
                        _ => vec![],
                    };
                    for (j, id) in js.iter().zip(&ex.returned[k]) {
                        if let Some(prev) = id_of.insert(*j, *id) {
                            if prev != *id {
                                rep.violation("C05/same-type-two-ids", format!("{} received id {} and later id {}", es[*j].text, prev, id), case());
                                return;
                            }
                        }
                    }
                }
                // (b) ids vs canonical identity over all pairs of roots
                let items: Vec<(usize, u32)> = id_of.iter().map(|(j, id)| (*j, *id)).collect();
                for x in 0..items.len() {
                    for y in x + 1..items.len() {
                        let (ea, eb) = (&es[items[x].0], &es[items[y].0]);
                        rep.count("identity_pairs_checked", 1);
                        if ea.shallow == eb.shallow && items[x].1 != items[y].1 {
                            let nested = ea.deep == eb.deep;
                            let _ = nested;
                            rep.violation(
                                &format!("C05/alias-not-shared{}", alias_kind(ea, eb)),
                                format!("`{}` (id {}) and `{}` (id {}) are the same type up to transparent wrappers (canonical `{}`) but received different ids", ea.text, items[x].1, eb.text, items[y].1, ea.shallow),
                                case(),
                            );
                            return;
                        }
                        if ea.shallow == eb.shallow {
                            rep.count("alias_pairs_sharing_id", 1);
                        }
                        if ea.deep != eb.deep && items[x].1 == items[y].1 {
                            rep.violation("C05/distinct-types-merged", format!("`{}` and `{}` are different types but share id {}", ea.text, eb.text, items[x].1), case());
                            return;
                        }
                    }
                }
                // (c) exactly one entry per reachable identity
                let want = bisim::reachable(&roots);
                if want.len() != last.len() {
                    rep.violation("C05/entry-count", format!("{} entries but {} distinct type identities are reachable from what was registered", last.len(), want.len()), case());
                    return;
                }
                rep.count("entry_count_checks", 1);
                // the same must hold for the registry a user ends up with (the frozen form)
                match guard(|| PortableRegistry::from(ex.registry)) {
                    Ok(frozen) => {
                        if frozen.types.len() != want.len() {
                            rep.violation("C05/entry-count", format!("the frozen registry has {} entries but {} distinct type identities are reachable from what was registered", frozen.types.len(), want.len()), case());
                            return;
                        }
                        for (j, id) in &id_of {
                            let then = last.iter().find(|(i, _)| i == id).map(|(_, t)| t);
                            if frozen.resolve(*id) != then || then.is_none() {
                                rep.violation("C05/frozen-id-resolves-differently", format!("id {} of `{}` resolves to a different entry (or none) in the frozen registry", id, es[*j].text), case());
                                return;
                            }
                        }
                        // keeping everything keeps exactly one entry per identity
                        let mut kept = frozen.clone();
                        match guard(|| kept.retain(|_| true)) {
                            Ok(map) => {
                                if kept.types.len() != frozen.types.len() || map.len() != frozen.types.len() {
                                    rep.violation("C05/retain-all-changes-entry-count", format!("retain(keep everything) turns {} entries into {}", frozen.types.len(), kept.types.len()), case());
                                    return;
                                }
                            }
                            Err(p) => {
                                rep.violation("C05/registration-panic", format!("retain on the frozen registry panicked: {}", p), case());
                                return;
                            }
                        }
                        // the run-time builder, fed the same definitions, keeps one entry per distinct definition as well
                        // (definitions with equal path and parameters but different bodies, e.g. const-generic instantiations, stay apart)
                        let rebuilt = guard(|| {
                            let mut b = scale_info::PortableRegistryBuilder::new();
                            let ids: Vec<u32> = frozen.types.iter().map(|t| b.register_type(t.ty.clone())).collect();
                            (b.finish(), ids)
                        });
                        match rebuilt {
                            Ok((r, ids)) => {
                                let mut distinct: Vec<&Type<PortableForm>> = Vec::new();
                                for (t, id) in frozen.types.iter().zip(&ids) {
                                    let first = distinct.iter().position(|x| **x == t.ty).unwrap_or_else(|| {
                                        distinct.push(&t.ty);
                                        distinct.len() - 1
                                    });
                                    if first as u32 != *id || r.types.get(first).map(|x| &x.ty) != Some(&t.ty) {
                                        rep.violation("C05/distinct-types-merged", format!("fed to a PortableRegistryBuilder, entry {} (path {:?}) received id {} which holds another definition (it is distinct definition number {})", t.id, t.ty.path.segments, id, first), case());
                                        return;
                                    }
                                }
                                rep.count("definitions_reinterned_by_builder", frozen.types.len() as u64);
                                // ... and definitions that differ from a held one in a single place (one doc line of a variant, one name,
                                // one index) are distinct types for the builder as well
                                if !frozen.types.is_empty() && i % 4 == 0 {
                                    let mut b = scale_info::PortableRegistryBuilder::new();
                                    let mut held: Vec<Type<PortableForm>> = Vec::new();
                                    for t in &frozen.types {
                                        if !held.contains(&t.ty) {
                                            held.push(t.ty.clone());
                                        }
                                        b.register_type(t.ty.clone());
                                    }
                                    for _ in 0..6 {
                                        let k = rng.below(frozen.types.len());
                                        let one = PortableRegistry { types: vec![scale_info::PortableType::new(0, frozen.types[k].ty.clone())] };
                                        if let Some((m, what)) = reggen::mutate(&mut rng, &one) {
                                            if m.types.len() != 1 || held.contains(&m.types[0].ty) {
                                                continue;
                                            }
                                            let got = b.register_type(m.types[0].ty.clone());
                                            if got as usize != held.len() {
                                                rep.violation("C05/distinct-types-merged", format!("a definition that differs from entry {} (path {:?}) by one edit ({}) received the existing id {} from a PortableRegistryBuilder holding {} definitions", k, frozen.types[k].ty.path.segments, what, got, held.len()), case());
                                                return;
                                            }
                                            held.push(m.types[0].ty.clone());
                                            rep.count("single_edit_neighbours_interned", 1);
                                        }
                                    }
                                }
                            }
                            Err(p) => {
                                rep.violation("C05/registration-panic", format!("re-interning the registry's definitions in a PortableRegistryBuilder panicked: {}", p), case());
                                return;
                            }
                        }
                        rep.count("frozen_registries_checked", 1);
                    }
                    Err(p) => {
                        rep.violation("C05/registration-panic", format!("freezing the registry panicked: {}", p), case());
                        return;
                    }
                }
                // (d) at most one evaluation per instrumented type. The oracle's own walks happen after this read.
                for (name, n) in &evals {
                    rep.count("instrumented_evaluations_seen", 1);
                    if *n > 1 {
                        rep.violation("C05/evaluated-more-than-once", format!("type_info() of {} ran {} times during one registry's lifetime", name, n), case());
                        return;
                    }
                }
            }
            "C11" => {
                // (a) prefix monitor
                for k in 1..ex.snaps.len() {
                    let (p, q) = (&ex.snaps[k - 1], &ex.snaps[k]);
                    if q.len() < p.len() || p.iter().zip(q.iter()).any(|(x, y)| x != y) {
                        rep.violation("C11/earlier-state-not-a-prefix", format!("after op {} an existing entry was renumbered or altered", k), case());
                        return;
                    }
                    rep.count("prefix_checks", 1);
                }
                // every id ever returned still resolves to what it resolved to when returned
                for (k, ids) in ex.returned.iter().enumerate() {
                    for id in ids {
                        let then = ex.snaps[k].iter().find(|(i, _)| i == id).map(|(_, t)| type_hash(t));
                        let now = last.iter().find(|(i, _)| i == id).map(|(_, t)| type_hash(t));
                        if then.is_none() && now.is_none() && ops.iter().any(|o| matches!(o, Op::RegFault(_))) {
                            // an id reserved by the aborted registration, handed out again without a definition: not asserted either way
                            rep.count("ids_without_definition_after_injected_fault", 1);
                            continue;
                        }
                        if then.is_none() || then != now {
                            rep.violation("C11/id-unstable", format!("id {} returned by op {} resolves differently at the end", id, k), case());
                            return;
                        }
                        rep.count("returned_ids_rechecked", 1);
                    }
                }
                // (b) replay determinism
                let bytes = refcodec::encode(&reg);
                match guard(|| execute(&es, &ops, false, rep, &prop)) {
                    Ok(Ok(ex2)) => {
                        let r2: PortableRegistry = ex2.registry.into();
                        let frozen: PortableRegistry = ex.registry.into();
                        // the frozen form a user ends up with carries every id under the label it was handed out with
                        for (id, def) in &last {
                            if frozen.types.iter().find(|t| t.id == *id).map(|t| &t.ty) != Some(def) {
                                rep.violation("C11/id-unstable", format!("id {} resolves to its definition in the registry but the frozen registry has no entry labelled {} with that definition", id, id), case());
                                return;
                            }
                        }
                        rep.count("frozen_labels_checked", last.len() as u64);
                        if r2.encode() != frozen.encode() || refcodec::encode(&r2) != bytes {
                            rep.violation("C11/replay-differs", "replaying the same history gives a different registry".into(), case());
                            return;
                        }
                        rep.count("replays_compared", 1);
                    }
                    _ => rep.inconclusive(format!("replay failed in case {}", i)),
                }
                // ... and on a fresh thread (nothing a previous registry left behind on this thread may matter)
                if i % 8 == 0 {
                    let fresh = std::thread::scope(|sc| {
                        std::thread::Builder::new()
                            .stack_size(256 << 20)
                            .spawn_scoped(sc, || {
                                let mut scratch = Report::default();
                                guard(|| execute(&es, &ops, false, &mut scratch, "C11").map(|ex2| {
                                    let r2: PortableRegistry = ex2.registry.into();
                                    refcodec::encode(&r2)
                                }))
                            })
                            .expect("spawn")
                            .join()
                    });
                    match fresh {
                        Ok(Ok(Ok(b2))) => {
                            if b2 != bytes {
                                rep.violation("C11/replay-differs-on-fresh-thread", "replaying the same history on a fresh thread gives a different registry".into(), case());
                                return;
                            }
                            rep.count("fresh_thread_replays_compared", 1);
                        }
                        _ => rep.inconclusive(format!("fresh-thread replay failed in case {}", i)),
                    }
                }
                // (c) permutation of the roots => isomorphic registry
                let root_idx: Vec<usize> = ops.iter().flat_map(|o| match o {
                    Op::Reg(j) => vec![*j],
                    Op::Batch(v) => v.clone(),
                    _ => vec![],
                }).collect();
                let only_reg = ops.iter().all(|o| matches!(o, Op::Reg(_) | Op::Batch(_)));
                if only_reg && !root_idx.is_empty() {
                    for _ in 0..3 {
                        let mut perm = root_idx.clone();
                        rng.shuffle(&mut perm);
                        let ops2: Vec<Op> = perm.iter().map(|j| Op::Reg(*j)).collect();
                        if let Ok(Ok(ex2)) = guard(|| execute(&es, &ops2, false, rep, &prop)) {
                            let ids2: HashMap<usize, u32> = perm.iter().zip(ex2.returned.iter()).map(|(j, v)| (*j, v[0])).collect();
                            let r2: PortableRegistry = ex2.registry.into();
                            let mut pairs = Vec::new();
                            let mut k = 0;
                            for (op, ids) in ops.iter().zip(&ex.returned) {
                                let js: Vec<usize> = match op {
                                    Op::Reg(j) => vec![*j],
                                    Op::Batch(v) => v.clone(),
                                    _ => vec![],
                                };
                                for (j, id) in js.iter().zip(ids) {
                                    pairs.push((*id, ids2[j]));
                                    k += 1;
                                }
                            }
                            let _ = k;
                            if let Err(e) = isomorphic(&reg, &r2, &pairs) {
                                rep.violation("C11/permutation-not-isomorphic", format!("registering the same roots in another order: {}", e), json!({"case": i, "seed": seed, "history": trace, "permuted": perm.iter().map(|j| es[*j].text).collect::<Vec<_>>()}));
                                return;
                            }
                            rep.count("permutations_compared", 1);
                        }
                    }
                }
            }
            _ => panic!("hist: unknown --prop"),
        }
    });
    total.merge(body);
    total
}

/// One registry that stays in use for many thousands of registrations (every corpus entry, several passes, shuffled):
/// whatever a registry carries from call to call must not change ids, entries or well-formedness however long it lives.
fn long_lived(es: &[Entry], rng: &mut Rng, rep: &mut Report, prop: &str, i: u64, seed: u64) {
    let mut order: Vec<usize> = (0..es.len()).collect();
    rng.shuffle(&mut order);
    let case = |what: String| json!({"case": i, "seed": seed, "long_lived": true, "at": what});
    let mut reg = Registry::new();
    let mut first: Vec<u32> = Vec::with_capacity(order.len());
    let mut regs = 0u64;
    let mut len_after_first = 0usize;
    for pass in 0..4 {
        for (k, j) in order.iter().enumerate() {
            let m = (es[*j].meta)();
            let id = match guard(|| reg.register_type(&m).id) {
                Ok(id) => id,
                Err(p) => {
                    rep.violation(&format!("{}/registration-panic", prop), format!("a registry in use for {} registrations panicked on `{}` (pass {}): {}", regs, es[*j].text, pass, p), case(format!("registration {}", regs)));
                    return;
                }
            };
            regs += 1;
            if pass == 0 {
                first.push(id);
            } else if first[k] != id {
                let key = if prop == "C11" { "C11/id-unstable" } else if prop == "C05" { "C05/same-type-two-ids" } else if prop == "C01" { "C01/registry-not-dense" } else { "C02/root-id" };
                rep.violation(key, format!("`{}` had id {} and has id {} after {} registrations in the same registry", es[*j].text, first[k], id, regs), case(format!("registration {}", regs)));
                return;
            }
        }
        let n = reg.types().count();
        if pass == 0 {
            len_after_first = n;
        } else if n != len_after_first {
            let key = if prop == "C05" { "C05/reregistration-changes-registry" } else if prop == "C11" { "C11/earlier-state-not-a-prefix" } else if prop == "C01" { "C01/registry-not-dense" } else { "C02/definition" };
            rep.violation(key, format!("registering the same {} types again turned {} entries into {}", order.len(), len_after_first, n), case(format!("pass {}", pass)));
            return;
        }
    }
    rep.count("long_lived_registries", 1);
    rep.count("long_lived_registrations", regs);
    rep.eval(None);
    let frozen: PortableRegistry = match guard(|| PortableRegistry::from(reg)) {
        Ok(r) => r,
        Err(p) => {
            rep.violation(&format!("{}/registration-panic", prop), format!("freezing a long-lived registry panicked: {}", p), case("freeze".into()));
            return;
        }
    };
    match prop {
        "C01" => {
            if let Err(e) = wf::check(&frozen, true) {
                rep.violation(if e.contains("mentions") { "C01/frozen-not-closed" } else { "C01/frozen-not-dense" }, e, case("frozen".into()));
            }
        }
        "C02" => {
            let mut bs = Bisim::default();
            for _ in 0..60 {
                let k = rng.below(order.len());
                let m = (es[order[k]].meta)();
                if let Err(e) = bs.conforms(&m, first[k], &frozen, 0) {
                    rep.violation(&format!("C02/{}", classify_bisim(&e)), format!("`{}` (id {}) in a long-lived registry: {}", es[order[k]].text, first[k], e), case("bisimulation".into()));
                    return;
                }
                rep.count("roots_checked", 1);
            }
        }
        "C05" => {
            let roots: Vec<(MetaType, bool)> = order.iter().map(|j| ((es[*j].meta)(), true)).collect();
            let want = bisim::reachable(&roots);
            if want.len() != frozen.types.len() {
                rep.violation("C05/entry-count", format!("a long-lived registry has {} entries but {} distinct type identities are reachable from what was registered", frozen.types.len(), want.len()), case("entry count".into()));
            }
        }
        _ => {
            // C11: the same shuffled order replayed into a fresh registry gives the same bytes
            let mut r2 = Registry::new();
            let ok = guard(|| {
                for j in &order {
                    r2.register_type(&(es[*j].meta)());
                }
            });
            if ok.is_ok() {
                let f2: PortableRegistry = r2.into();
                if refcodec::encode(&f2) != refcodec::encode(&frozen) {
                    rep.violation("C11/replay-differs", "one pass over the corpus and four passes over it (same order) give different registries".into(), case("replay".into()));
                }
                rep.count("replays_compared", 1);
            }
        }
    }
}

/// Digest of the registries produced by the first `cases` histories (single thread, fixed order):
/// compared across two separate processes (different ASLR / allocator state).
pub fn digest(a: &Args) -> Report {
    let seed = a.u("seed", 1);
    let cases = a.u("cases", 400);
    let es = crate::gen::entries();
    init_twins(&es);
    let mut by_shallow: HashMap<&'static str, Vec<usize>> = HashMap::new();
    for (i, e) in es.iter().enumerate() {
        by_shallow.entry(e.shallow).or_default().push(i);
    }
    let mut rep = Report::default();
    let mut all: Vec<u8> = Vec::new();
    for i in 0..cases {
        let mut rng = Rng::derive(seed ^ 0x01, i + 1_000_000);
        let ops = gen_history(&es, &by_shallow, &mut rng, false);
        let mut scratch = Report::default();
        if let Ok(ex) = execute(&es, &ops, false, &mut scratch, "C11") {
            let r: PortableRegistry = ex.registry.into();
            all.extend_from_slice(&r.encode());
            rep.eval(Some(hash_bytes(&r.encode())));
        }
    }
    rep.seen("digest", &format!("{:016x}/{}", hash_bytes(&all), all.len()));
    rep
}

fn classify_bisim(e: &str) -> &'static str {
    if e.contains("type name") {
        "type-name"
    } else if e.contains("docs") {
        "docs"
    } else if e.contains("index") {
        "variant-index"
    } else if e.contains("array length") {
        "array-length"
    } else if e.contains("type parameter") {
        "type-parameter"
    } else if e.contains("paired with two ids") {
        "identity-two-ids"
    } else if e.contains("path") {
        "path"
    } else if e.contains("name") {
        "name"
    } else {
        "definition"
    }
}

/// Which alias construction separates two entries with the same canonical identity.
fn alias_kind(a: &Entry, b: &Entry) -> &'static str {
    // a wrapper around something that is itself an alias (another wrapper, Vec, String, ...)
    if a.alias_layers >= 2 || b.alias_layers >= 2 {
        "/nested-wrapper"
    } else {
        ""
    }
}
