//! dependency anchor, see Cargo.toml
