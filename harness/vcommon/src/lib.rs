pub mod ident;
pub mod prng;
pub mod refcodec;
pub mod refjson;
pub mod refretain;
pub mod reggen;
pub mod report;
pub mod wf;
pub const HAVE_HOOKS: bool = cfg!(have_hooks);
