//! Accessor monitor: every public accessor method of a description must answer with the public field it is
//! documented to expose. A consumer that reads descriptions through the (deprecated, still public) getters
//! must see exactly what a consumer reading the fields sees.
#![allow(deprecated)]

use scale_info::form::Form;
use scale_info::{Field, Path, PortableRegistry, Type, TypeDef, Variant};
use std::fmt::Debug;

fn same<A: PartialEq + Debug + ?Sized>(what: &str, via_getter: &A, field: &A) -> Result<(), String> {
    if via_getter != field {
        return Err(format!("{} answers {:?} but the field holds {:?}", what, via_getter, field));
    }
    Ok(())
}

fn field<T: Form>(f: &Field<T>, n: &mut u64) -> Result<(), String>
where
    T::Type: PartialEq + Debug,
    T::String: PartialEq + Debug,
{
    same("Field::name()", &f.name(), &f.name.as_ref())?;
    same("Field::ty()", f.ty(), &f.ty)?;
    same("Field::type_name()", &f.type_name(), &f.type_name.as_ref())?;
    same("Field::docs()", f.docs(), &f.docs[..])?;
    *n += 4;
    Ok(())
}

fn variant<T: Form>(v: &Variant<T>, n: &mut u64) -> Result<(), String>
where
    T::Type: PartialEq + Debug,
    T::String: PartialEq + Debug,
{
    same("Variant::name()", v.name(), &v.name)?;
    same("Variant::index()", &v.index(), &v.index)?;
    same("Variant::docs()", v.docs(), &v.docs[..])?;
    if v.fields().len() != v.fields.len() {
        return Err(format!("Variant::fields() has {} members, the field has {}", v.fields().len(), v.fields.len()));
    }
    *n += 4;
    for (a, b) in v.fields().iter().zip(&v.fields) {
        if !std::ptr::eq(a, b) {
            same("Variant::fields()[i].ty", &a.ty, &b.ty)?;
            same("Variant::fields()[i].name", &a.name, &b.name)?;
        }
        field(b, n)?;
    }
    Ok(())
}

pub fn path<T: Form>(p: &Path<T>, n: &mut u64) -> Result<(), String>
where
    T::String: PartialEq + Debug,
{
    same("Path::segments()", p.segments(), &p.segments[..])?;
    same("Path::is_empty()", &p.is_empty(), &p.segments.is_empty())?;
    same("Path::ident()", &p.ident().as_ref(), &p.segments.last())?;
    let ns = p.namespace();
    let want: &[T::String] = if p.segments.is_empty() { &[] } else { &p.segments[..p.segments.len() - 1] };
    same("Path::namespace()", ns, want)?;
    *n += 4;
    Ok(())
}

/// Number of accessor answers compared, or the first disagreement.
pub fn check_type<T: Form>(t: &Type<T>) -> Result<u64, String>
where
    T::Type: PartialEq + Debug,
    T::String: PartialEq + Debug,
{
    let mut n = 0u64;
    same("Type::path()", &t.path().segments, &t.path.segments)?;
    path(&t.path, &mut n)?;
    same("Type::docs()", t.docs(), &t.docs[..])?;
    if t.type_params().len() != t.type_params.len() {
        return Err(format!("Type::type_params() has {} entries, the field has {}", t.type_params().len(), t.type_params.len()));
    }
    for (a, b) in t.type_params().iter().zip(&t.type_params) {
        same("Type::type_params()[i].name", &a.name, &b.name)?;
        same("Type::type_params()[i].ty", &a.ty, &b.ty)?;
        same("TypeParameter::name()", b.name(), &b.name)?;
        same("TypeParameter::ty()", &b.ty(), &b.ty.as_ref())?;
        n += 4;
    }
    n += 3;
    let via = t.type_def();
    if std::mem::discriminant(via) != std::mem::discriminant(&t.type_def) {
        return Err("Type::type_def() answers with another kind of definition than the field holds".into());
    }
    match &t.type_def {
        TypeDef::Composite(c) => {
            if c.fields().len() != c.fields.len() {
                return Err(format!("TypeDefComposite::fields() has {} members, the field has {}", c.fields().len(), c.fields.len()));
            }
            for (a, b) in c.fields().iter().zip(&c.fields) {
                same("TypeDefComposite::fields()[i].ty", &a.ty, &b.ty)?;
                same("TypeDefComposite::fields()[i].name", &a.name, &b.name)?;
                field(b, &mut n)?;
            }
            n += 1;
        }
        TypeDef::Variant(v) => {
            if v.variants().len() != v.variants.len() {
                return Err(format!("TypeDefVariant::variants() has {} variants, the field has {}", v.variants().len(), v.variants.len()));
            }
            for (a, b) in v.variants().iter().zip(&v.variants) {
                same("TypeDefVariant::variants()[i].name", &a.name, &b.name)?;
                same("TypeDefVariant::variants()[i].index", &a.index, &b.index)?;
                variant(b, &mut n)?;
            }
            n += 1;
        }
        TypeDef::Sequence(s) => {
            same("TypeDefSequence::type_param()", s.type_param(), &s.type_param)?;
            n += 1;
        }
        TypeDef::Array(a) => {
            same("TypeDefArray::len()", &a.len(), &a.len)?;
            same("TypeDefArray::type_param()", a.type_param(), &a.type_param)?;
            n += 2;
        }
        TypeDef::Tuple(tu) => {
            same("TypeDefTuple::fields()", tu.fields(), &tu.fields[..])?;
            n += 1;
        }
        TypeDef::Primitive(_) => {}
        TypeDef::Compact(c) => {
            same("TypeDefCompact::type_param()", c.type_param(), &c.type_param)?;
            n += 1;
        }
        TypeDef::BitSequence(b) => {
            same("TypeDefBitSequence::bit_store_type()", b.bit_store_type(), &b.bit_store_type)?;
            same("TypeDefBitSequence::bit_order_type()", b.bit_order_type(), &b.bit_order_type)?;
            n += 2;
        }
    }
    Ok(n)
}

pub fn check_registry(reg: &PortableRegistry) -> Result<u64, String> {
    let mut n = 0u64;
    if reg.types().len() != reg.types.len() {
        return Err(format!("PortableRegistry::types() lists {} entries, the field has {}", reg.types().len(), reg.types.len()));
    }
    for (a, b) in reg.types().iter().zip(&reg.types) {
        same("PortableType::id()", &a.id(), &b.id).map_err(|e| format!("entry {}: {}", b.id, e))?;
        if a.ty() != &b.ty {
            return Err(format!("entry {}: PortableType::ty() answers with another description than the field holds", b.id));
        }
        n += 2;
        n += check_type(&b.ty).map_err(|e| format!("entry {}: {}", b.id, e))?;
    }
    Ok(n)
}
