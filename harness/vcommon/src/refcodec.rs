//! R4: reference V14 registry codec written from the published layout. It does not use any
//! `Encode`/`Decode` impl of scale-info types: everything goes through public fields and
//! public constructors.

use crate::reggen::{PField, PParam, PType, PVariant, PRIMS};
use scale_info::{
    form::PortableForm, Field, Path, PortableRegistry, PortableType, Type, TypeDef, TypeDefArray,
    TypeDefBitSequence, TypeDefCompact, TypeDefComposite, TypeDefSequence, TypeDefTuple,
    TypeDefVariant, TypeParameter, Variant,
};

#[derive(Clone, Copy, Debug, PartialEq, Eq)]
pub enum Slot {
    VecLen,
    StrLen,
    Id,
    OptTag,
    DefTag,
    PrimTag,
    Index,
    ArrayLen,
}

#[derive(Clone, Copy, Debug)]
pub struct Pos {
    pub off: usize,
    pub len: usize,
    pub slot: Slot,
}

#[derive(Default)]
pub struct Enc {
    pub out: Vec<u8>,
    pub map: Vec<Pos>,
}

pub fn compact_u32(v: u32, out: &mut Vec<u8>) {
    if v < 1 << 6 {
        out.push((v as u8) << 2);
    } else if v < 1 << 14 {
        out.extend_from_slice(&(((v as u16) << 2) | 1).to_le_bytes());
    } else if v < 1 << 30 {
        out.extend_from_slice(&((v << 2) | 2).to_le_bytes());
    } else {
        out.push(3);
        out.extend_from_slice(&v.to_le_bytes());
    }
}

impl Enc {
    fn compact(&mut self, v: u32, slot: Slot) {
        let off = self.out.len();
        compact_u32(v, &mut self.out);
        self.map.push(Pos { off, len: self.out.len() - off, slot });
    }
    fn byte(&mut self, b: u8, slot: Slot) {
        self.map.push(Pos { off: self.out.len(), len: 1, slot });
        self.out.push(b);
    }
    fn string(&mut self, s: &str) {
        self.compact(s.len() as u32, Slot::StrLen);
        self.out.extend_from_slice(s.as_bytes());
    }
    fn strings(&mut self, v: &[String]) {
        self.compact(v.len() as u32, Slot::VecLen);
        for s in v {
            self.string(s);
        }
    }
    fn opt_string(&mut self, s: &Option<String>) {
        match s {
            None => self.byte(0, Slot::OptTag),
            Some(s) => {
                self.byte(1, Slot::OptTag);
                self.string(s);
            }
        }
    }
    fn field(&mut self, f: &PField) {
        self.opt_string(&f.name);
        self.compact(f.ty.id, Slot::Id);
        self.opt_string(&f.type_name);
        self.strings(&f.docs);
    }
    fn fields(&mut self, fs: &[PField]) {
        self.compact(fs.len() as u32, Slot::VecLen);
        for f in fs {
            self.field(f);
        }
    }
    fn ty(&mut self, t: &PType) {
        self.strings(&t.path.segments);
        self.compact(t.type_params.len() as u32, Slot::VecLen);
        for p in &t.type_params {
            self.string(&p.name);
            match &p.ty {
                None => self.byte(0, Slot::OptTag),
                Some(id) => {
                    self.byte(1, Slot::OptTag);
                    self.compact(id.id, Slot::Id);
                }
            }
        }
        match &t.type_def {
            TypeDef::Composite(c) => {
                self.byte(0, Slot::DefTag);
                self.fields(&c.fields);
            }
            TypeDef::Variant(v) => {
                self.byte(1, Slot::DefTag);
                self.compact(v.variants.len() as u32, Slot::VecLen);
                for var in &v.variants {
                    self.string(&var.name);
                    self.fields(&var.fields);
                    self.byte(var.index, Slot::Index);
                    self.strings(&var.docs);
                }
            }
            TypeDef::Sequence(s) => {
                self.byte(2, Slot::DefTag);
                self.compact(s.type_param.id, Slot::Id);
            }
            TypeDef::Array(a) => {
                self.byte(3, Slot::DefTag);
                self.map.push(Pos { off: self.out.len(), len: 4, slot: Slot::ArrayLen });
                self.out.extend_from_slice(&a.len.to_le_bytes());
                self.compact(a.type_param.id, Slot::Id);
            }
            TypeDef::Tuple(t) => {
                self.byte(4, Slot::DefTag);
                self.compact(t.fields.len() as u32, Slot::VecLen);
                for id in &t.fields {
                    self.compact(id.id, Slot::Id);
                }
            }
            TypeDef::Primitive(p) => {
                self.byte(5, Slot::DefTag);
                let tag = PRIMS.iter().position(|q| q == p).expect("primitive table") as u8;
                self.byte(tag, Slot::PrimTag);
            }
            TypeDef::Compact(c) => {
                self.byte(6, Slot::DefTag);
                self.compact(c.type_param.id, Slot::Id);
            }
            TypeDef::BitSequence(b) => {
                self.byte(7, Slot::DefTag);
                self.compact(b.bit_store_type.id, Slot::Id);
                self.compact(b.bit_order_type.id, Slot::Id);
            }
        }
        self.strings(&t.docs);
    }
}

pub fn encode_with_map(r: &PortableRegistry) -> Enc {
    let mut e = Enc::default();
    e.compact(r.types.len() as u32, Slot::VecLen);
    for t in &r.types {
        e.compact(t.id, Slot::Id);
        e.ty(&t.ty);
    }
    e
}

pub fn encode(r: &PortableRegistry) -> Vec<u8> {
    encode_with_map(r).out
}

// ---------------------------------------------------------------- strict decoder

pub struct Dec<'a> {
    pub b: &'a [u8],
    pub pos: usize,
}

type R<T> = Result<T, String>;

impl<'a> Dec<'a> {
    fn take(&mut self, n: usize) -> R<&'a [u8]> {
        if self.b.len() - self.pos < n {
            return Err(format!("eof at {} wanting {}", self.pos, n));
        }
        let s = &self.b[self.pos..self.pos + n];
        self.pos += n;
        Ok(s)
    }
    fn u8(&mut self) -> R<u8> {
        Ok(self.take(1)?[0])
    }
    pub fn compact(&mut self) -> R<u32> {
        let at = self.pos;
        let p = self.u8()?;
        match p & 3 {
            0 => Ok((p >> 2) as u32),
            1 => {
                let hi = self.u8()?;
                let v = (u16::from_le_bytes([p, hi]) >> 2) as u32;
                if v >= 1 << 6 {
                    Ok(v)
                } else {
                    Err(format!("non-canonical 2-byte compact at {}", at))
                }
            }
            2 => {
                let rest = self.take(3)?;
                let v = u32::from_le_bytes([p, rest[0], rest[1], rest[2]]) >> 2;
                if v >= 1 << 14 {
                    Ok(v)
                } else {
                    Err(format!("non-canonical 4-byte compact at {}", at))
                }
            }
            _ => {
                if p >> 2 != 0 {
                    return Err(format!("compact u32 with big-integer header {:#x} at {}", p, at));
                }
                let rest = self.take(4)?;
                let v = u32::from_le_bytes([rest[0], rest[1], rest[2], rest[3]]);
                if v >= 1 << 30 {
                    Ok(v)
                } else {
                    Err(format!("non-canonical 5-byte compact at {}", at))
                }
            }
        }
    }
    fn string(&mut self) -> R<String> {
        let n = self.compact()? as usize;
        let s = self.take(n)?;
        String::from_utf8(s.to_vec()).map_err(|_| format!("invalid utf-8 before {}", self.pos))
    }
    fn len(&mut self, min_elem: usize) -> R<usize> {
        let n = self.compact()? as usize;
        // an honest encoding needs at least min_elem bytes per element
        if n.saturating_mul(min_elem) > self.b.len() - self.pos {
            return Err(format!("length {} exceeds remaining input at {}", n, self.pos));
        }
        Ok(n)
    }
    fn strings(&mut self) -> R<Vec<String>> {
        let n = self.len(1)?;
        (0..n).map(|_| self.string()).collect()
    }
    fn opt_tag(&mut self) -> R<bool> {
        match self.u8()? {
            0 => Ok(false),
            1 => Ok(true),
            x => Err(format!("option byte {} at {}", x, self.pos - 1)),
        }
    }
    fn opt_string(&mut self) -> R<Option<String>> {
        if self.opt_tag()? {
            Ok(Some(self.string()?))
        } else {
            Ok(None)
        }
    }
    fn field(&mut self) -> R<PField> {
        let name = self.opt_string()?;
        let ty = self.compact()?;
        let type_name = self.opt_string()?;
        let docs = self.strings()?;
        Ok(Field::new(name, ty.into(), type_name, docs))
    }
    fn fields(&mut self) -> R<Vec<PField>> {
        let n = self.len(4)?;
        (0..n).map(|_| self.field()).collect()
    }
    fn ty(&mut self) -> R<PType> {
        let segs = self.strings()?;
        let np = self.len(2)?;
        let mut params: Vec<PParam> = Vec::with_capacity(np);
        for _ in 0..np {
            let name = self.string()?;
            let ty = if self.opt_tag()? { Some(self.compact()?.into()) } else { None };
            params.push(TypeParameter::new_portable(name, ty));
        }
        let tag = self.u8()?;
        let def: TypeDef<PortableForm> = match tag {
            0 => TypeDefComposite::new(self.fields()?).into(),
            1 => {
                let n = self.len(4)?;
                let mut vs: Vec<PVariant> = Vec::with_capacity(n);
                for _ in 0..n {
                    let name = self.string()?;
                    let fields = self.fields()?;
                    let index = self.u8()?;
                    let docs = self.strings()?;
                    vs.push(Variant::new(name, fields, index, docs));
                }
                TypeDefVariant::new(vs).into()
            }
            2 => TypeDefSequence::new(self.compact()?.into()).into(),
            3 => {
                let l = self.take(4)?;
                let len = u32::from_le_bytes([l[0], l[1], l[2], l[3]]);
                TypeDefArray::new(len, self.compact()?.into()).into()
            }
            4 => {
                let n = self.len(1)?;
                let mut ids = Vec::with_capacity(n);
                for _ in 0..n {
                    ids.push(self.compact()?.into());
                }
                TypeDefTuple::new_portable(ids).into()
            }
            5 => {
                let p = self.u8()? as usize;
                if p >= PRIMS.len() {
                    return Err(format!("primitive tag {} at {}", p, self.pos - 1));
                }
                TypeDef::Primitive(PRIMS[p].clone())
            }
            6 => TypeDefCompact::new(self.compact()?.into()).into(),
            7 => {
                let s = self.compact()?;
                let o = self.compact()?;
                TypeDefBitSequence::new_portable(s.into(), o.into()).into()
            }
            x => return Err(format!("definition tag {} at {}", x, self.pos - 1)),
        };
        let docs = self.strings()?;
        Ok(Type::new(Path::from_segments_unchecked(segs), params, def, docs))
    }
}

/// Strict decode: returns the registry and the number of bytes consumed.
pub fn decode(b: &[u8]) -> R<(PortableRegistry, usize)> {
    let mut d = Dec { b, pos: 0 };
    let n = d.len(6)?;
    let mut types = Vec::with_capacity(n);
    for _ in 0..n {
        let id = d.compact()?;
        let ty = d.ty()?;
        types.push(PortableType::new(id, ty));
    }
    Ok((PortableRegistry { types }, d.pos))
}

/// Anchor vectors written out by hand from the layout (not produced by any encoder).
pub fn anchors() -> Vec<(&'static str, PortableRegistry, Vec<u8>)> {
    use scale_info::TypeDefPrimitive as P;
    let prim = |p: P| -> PType { Type::new(Path::from_segments_unchecked(Vec::<String>::new()), vec![], TypeDef::Primitive(p), vec![]) };
    let mut out = Vec::new();
    // 1. one u8 primitive, id 0
    out.push((
        "u8",
        PortableRegistry { types: vec![PortableType::new(0, prim(P::U8))] },
        vec![0x04, 0x00, 0x00, 0x00, 0x05, 0x03, 0x00],
    ));
    // 2. empty registry
    out.push(("empty", PortableRegistry { types: vec![] }, vec![0x00]));
    // 3. named composite: path ["a","B"], one field name "x" ty 1 type_name "u32" docs ["d"]; type docs ["D"]
    let comp: PType = Type::new(
        Path::from_segments_unchecked(vec!["a".to_string(), "B".to_string()]),
        vec![],
        TypeDefComposite::new(vec![Field::new(
            Some("x".to_string()),
            1.into(),
            Some("u32".to_string()),
            vec!["d".to_string()],
        )]),
        vec!["D".to_string()],
    );
    out.push((
        "composite",
        PortableRegistry { types: vec![PortableType::new(0, comp), PortableType::new(1, prim(P::U32))] },
        vec![
            0x08, // 2 types
            0x00, // id 0
            0x08, 0x04, b'a', 0x04, b'B', // path
            0x00, // params
            0x00, // composite
            0x04, // 1 field
            0x01, 0x04, b'x', // name
            0x04, // ty 1
            0x01, 0x0c, b'u', b'3', b'2', // type name
            0x04, 0x04, b'd', // field docs
            0x04, 0x04, b'D', // type docs
            0x04, // id 1
            0x00, 0x00, 0x05, 0x05, 0x00, // prim u32
        ],
    ));
    // 4. variant with index 255, unnamed field, no type name; type param T skipped, U = id 64
    let var: PType = Type::new(
        Path::from_segments_unchecked(vec!["E".to_string()]),
        vec![
            TypeParameter::new_portable("T".to_string(), None),
            TypeParameter::new_portable("U".to_string(), Some(64.into())),
        ],
        TypeDefVariant::new(vec![
            Variant::new("A".to_string(), vec![], 0, vec![]),
            Variant::new(
                "Z".to_string(),
                vec![Field::new(None, 16384.into(), None, vec![])],
                255,
                vec!["z".to_string()],
            ),
        ]),
        vec![],
    );
    out.push((
        "variant",
        PortableRegistry { types: vec![PortableType::new(63, var)] },
        vec![
            0x04, // 1 type
            0xfc, // id 63
            0x04, 0x04, b'E', // path
            0x08, // 2 params
            0x04, b'T', 0x00, // T: none
            0x04, b'U', 0x01, 0x01, 0x01, // U: some(64) -> (64<<2)|1 = 0x0101 LE
            0x01, // variant
            0x08, // 2 variants
            0x04, b'A', 0x00, 0x00, 0x00, // A: no fields, index 0, no docs
            0x04, b'Z', 0x04, // Z: 1 field
            0x00, // no name
            0x02, 0x00, 0x01, 0x00, // ty 16384 -> (16384<<2)|2 = 0x00010002 LE
            0x00, // no type name
            0x00, // no docs
            0xff, // index
            0x04, 0x04, b'z', // docs
            0x00, // type docs
        ],
    ));
    // 5. array len 0x01020304 of id 2^30, sequence, tuple, compact, bit sequence (store 1, order 2)
    let arr: PType = Type::new(
        Path::from_segments_unchecked(Vec::<String>::new()),
        vec![],
        TypeDefArray::new(0x0102_0304, (1u32 << 30).into()),
        vec![],
    );
    let seq: PType = Type::new(Path::from_segments_unchecked(Vec::<String>::new()), vec![], TypeDefSequence::new(u32::MAX.into()), vec![]);
    let tup: PType = Type::new(
        Path::from_segments_unchecked(Vec::<String>::new()),
        vec![],
        TypeDefTuple::new_portable(vec![0.into(), 1.into()]),
        vec![],
    );
    let cmp: PType = Type::new(Path::from_segments_unchecked(Vec::<String>::new()), vec![], TypeDefCompact::new(5.into()), vec![]);
    let bits: PType = Type::new(
        Path::from_segments_unchecked(Vec::<String>::new()),
        vec![],
        TypeDefBitSequence::new_portable(1.into(), 2.into()),
        vec![],
    );
    out.push((
        "others",
        PortableRegistry {
            types: vec![
                PortableType::new(0, arr),
                PortableType::new(1, seq),
                PortableType::new(2, tup),
                PortableType::new(3, cmp),
                PortableType::new(4, bits),
                PortableType::new(5, prim(P::I256)),
                PortableType::new(6, prim(P::Bool)),
            ],
        },
        vec![
            0x1c, // 7 types
            0x00, 0x00, 0x00, 0x03, 0x04, 0x03, 0x02, 0x01, 0x03, 0x00, 0x00, 0x00, 0x40, 0x00, // array
            0x04, 0x00, 0x00, 0x02, 0x03, 0xff, 0xff, 0xff, 0xff, 0x00, // sequence of u32::MAX
            0x08, 0x00, 0x00, 0x04, 0x08, 0x00, 0x04, 0x00, // tuple (0,1)
            0x0c, 0x00, 0x00, 0x06, 0x14, 0x00, // compact of 5
            0x10, 0x00, 0x00, 0x07, 0x04, 0x08, 0x00, // bitseq store 1 order 2
            0x14, 0x00, 0x00, 0x05, 0x0e, 0x00, // i256
            0x18, 0x00, 0x00, 0x05, 0x00, 0x00, // bool
        ],
    ));
    out
}
