//! RegGen: seeded generator of `PortableRegistry` values through the public constructors
//! and public fields only, plus single-edit mutators.

use crate::prng::Rng;
use scale_info::{
    form::PortableForm, Field, Path, PortableRegistry, PortableType, Type, TypeDef, TypeDefArray,
    TypeDefBitSequence, TypeDefCompact, TypeDefComposite, TypeDefPrimitive, TypeDefSequence,
    TypeDefTuple, TypeDefVariant, TypeParameter, Variant,
};

pub type PType = Type<PortableForm>;
pub type PField = Field<PortableForm>;
pub type PVariant = Variant<PortableForm>;
pub type PParam = TypeParameter<PortableForm>;

pub const PRIMS: [TypeDefPrimitive; 15] = [
    TypeDefPrimitive::Bool,
    TypeDefPrimitive::Char,
    TypeDefPrimitive::Str,
    TypeDefPrimitive::U8,
    TypeDefPrimitive::U16,
    TypeDefPrimitive::U32,
    TypeDefPrimitive::U64,
    TypeDefPrimitive::U128,
    TypeDefPrimitive::U256,
    TypeDefPrimitive::I8,
    TypeDefPrimitive::I16,
    TypeDefPrimitive::I32,
    TypeDefPrimitive::I64,
    TypeDefPrimitive::I128,
    TypeDefPrimitive::I256,
];

#[derive(Clone, Copy, Debug, PartialEq, Eq)]
pub enum Mode {
    /// dense ids, every reference in range
    WellFormed,
    /// ids from all compact size classes, id != index, dangling references
    Arbitrary,
}

#[derive(Clone, Copy, Debug, PartialEq, Eq)]
pub enum Shape {
    Any,
    Forward,
    Backward,
    SelfHeavy,
    Ring,
    Sparse,
}

#[derive(Clone, Debug)]
pub struct Cfg {
    pub mode: Mode,
    pub max_types: usize,
    /// allow vectors / strings crossing the 64 boundary
    pub mid: bool,
    /// allow vectors / strings crossing the 16384 boundary
    pub big: bool,
}

impl Cfg {
    pub fn small(mode: Mode) -> Self {
        Cfg { mode, max_types: 12, mid: false, big: false }
    }
    pub fn medium(mode: Mode) -> Self {
        Cfg { mode, max_types: 40, mid: true, big: false }
    }
}

const WORDS: [&str; 30] = [
    "", "a", "T", "_", "foo", "Bar", "r#type", "u8", "Vec<T>", "Option<&'static str>", "x::y::Z", "Vec < (u8 , Inner) >", "& 'static str", "[ u8 ; 4 ]", "Box < T >", "a :: b", "( )",
    "é", "日本語", "a\u{0301}", "\u{202e}rtl", "😀", "\0", "\n\t\r", "\"q\"", "\\b\\", "{}", "[1]",
    "null", " lead",
];

pub fn gen_string(rng: &mut Rng, cfg: &Cfg) -> String {
    let k = rng.below(100);
    if k < 70 {
        (*rng.pick(&WORDS)).to_string()
    } else if k < 85 {
        // random short unicode soup
        let n = rng.below(8);
        let mut s = String::new();
        for _ in 0..n {
            let c = match rng.below(6) {
                0 => (b'a' + rng.below(26) as u8) as char,
                1 => (b'A' + rng.below(26) as u8) as char,
                2 => char::from_u32(rng.below(0x20) as u32).unwrap(),
                3 => char::from_u32(0x80 + rng.below(0x700) as u32).unwrap_or('x'),
                4 => char::from_u32(0x800 + rng.below(0xD000 - 0x800) as u32).unwrap_or('y'),
                _ => char::from_u32(0x1_0000 + rng.below(0xF_FFFF) as u32).unwrap_or('z'),
            };
            s.push(c);
        }
        s
    } else if k < 95 || !cfg.mid {
        let n = *rng.pick(&[2usize, 3, 17, 31]);
        "w".repeat(n)
    } else if k < 99 || !cfg.big {
        // compact length boundary 63/64/65 (bytes)
        let n = *rng.pick(&[63usize, 64, 65, 100, 255, 256, 257]);
        if rng.flip() {
            "x".repeat(n)
        } else {
            // multi-byte content: byte length differs from char count
            let mut s = "é".repeat(n / 2);
            if n % 2 == 1 {
                s.push('z');
            }
            s
        }
    } else {
        let n = *rng.pick(&[16383usize, 16384, 16385]);
        "y".repeat(n)
    }
}

fn gen_docs(rng: &mut Rng, cfg: &Cfg) -> Vec<String> {
    let k = rng.below(100);
    let n = if k < 55 {
        0
    } else if k < 80 {
        1
    } else if k < 96 || !cfg.mid {
        rng.range(2, 4)
    } else if k < 99 || !cfg.big {
        *rng.pick(&[63usize, 64, 65])
    } else {
        *rng.pick(&[16383usize, 16384, 16385])
    };
    if n > 100 {
        // keep big vectors cheap: empty / tiny strings
        (0..n).map(|i| if i % 7 == 0 { "d".to_string() } else { String::new() }).collect()
    } else {
        (0..n).map(|_| gen_string(rng, cfg)).collect()
    }
}

fn gen_count(rng: &mut Rng, cfg: &Cfg) -> usize {
    let k = rng.below(100);
    if k < 15 {
        0
    } else if k < 45 {
        1
    } else if k < 92 || !cfg.mid {
        rng.range(2, 5)
    } else if k < 99 || !cfg.big {
        *rng.pick(&[63usize, 64, 65])
    } else {
        *rng.pick(&[16383usize, 16384, 16385])
    }
}

pub struct IdGen {
    pub mode: Mode,
    pub shape: Shape,
    pub n: usize,
}

impl IdGen {
    pub fn id(&self, rng: &mut Rng, me: usize) -> u32 {
        match self.mode {
            Mode::WellFormed => {
                let n = self.n;
                let v = match self.shape {
                    Shape::Any => rng.below(n),
                    Shape::Forward => {
                        if me + 1 < n {
                            rng.range(me + 1, n - 1)
                        } else {
                            me
                        }
                    }
                    Shape::Backward => {
                        if me > 0 {
                            rng.below(me)
                        } else {
                            0
                        }
                    }
                    Shape::SelfHeavy => {
                        if rng.flip() {
                            me
                        } else {
                            rng.below(n)
                        }
                    }
                    Shape::Ring => {
                        if rng.chance(3, 4) {
                            (me + 1) % n
                        } else {
                            rng.below(n)
                        }
                    }
                    Shape::Sparse => {
                        // few hubs: most references go to a handful of ids
                        if rng.chance(3, 4) {
                            rng.below(n.min(3))
                        } else {
                            rng.below(n)
                        }
                    }
                };
                v as u32
            }
            Mode::Arbitrary => arbitrary_id(rng),
        }
    }
}

/// Ids drawn from the four compact-integer size classes, boundary heavy.
pub fn arbitrary_id(rng: &mut Rng) -> u32 {
    match rng.below(12) {
        0 => 0,
        1 => 63,
        2 => 64,
        3 => (1 << 14) - 1,
        4 => 1 << 14,
        5 => (1 << 30) - 1,
        6 => 1 << 30,
        7 => u32::MAX,
        8 => rng.below(64) as u32,
        9 => rng.range(64, (1 << 14) - 1) as u32,
        10 => rng.range(1 << 14, (1 << 30) - 1) as u32,
        _ => (1u32 << 30) + (rng.next_u32() >> 2),
    }
}

fn gen_field(rng: &mut Rng, cfg: &Cfg, ids: &IdGen, me: usize, named: Option<bool>) -> PField {
    let named = named.unwrap_or_else(|| rng.flip());
    let name = if named { Some(gen_string(rng, cfg)) } else { None };
    let type_name = if rng.flip() { Some(gen_string(rng, cfg)) } else { None };
    Field::new(name, ids.id(rng, me).into(), type_name, gen_docs(rng, cfg))
}

fn gen_fields(rng: &mut Rng, cfg: &Cfg, ids: &IdGen, me: usize) -> Vec<PField> {
    let n = gen_count(rng, cfg);
    // consistent named / unnamed / mixed
    let style = match rng.below(5) {
        0 | 1 => Some(true),
        2 | 3 => Some(false),
        _ => None,
    };
    let small = Cfg { mid: false, big: false, ..cfg.clone() };
    let c = if n > 100 { &small } else { cfg };
    (0..n).map(|_| gen_field(rng, c, ids, me, style)).collect()
}

pub fn gen_type(rng: &mut Rng, cfg: &Cfg, ids: &IdGen, me: usize, force_kind: Option<usize>) -> PType {
    let kind = force_kind.unwrap_or_else(|| rng.below(8));
    let def: TypeDef<PortableForm> = match kind {
        0 => TypeDefComposite::new(gen_fields(rng, cfg, ids, me)).into(),
        1 => {
            // 256 variants is the largest enum the codec supports: make sure 255 / 256 / 257 occur
            let n = if cfg.mid && rng.chance(1, 40) { *rng.pick(&[255usize, 256, 257]) } else { gen_count(rng, cfg).min(300) };
            let small = Cfg { mid: false, big: false, ..cfg.clone() };
            let vars: Vec<PVariant> = (0..n)
                .map(|i| {
                    let c = if n > 20 { &small } else { cfg };
                    let index = match rng.below(4) {
                        0 => i as u8,
                        1 => 255,
                        2 => 0,
                        _ => rng.next_u64() as u8,
                    };
                    let fields = if rng.chance(1, 3) { vec![] } else { gen_fields(rng, c, ids, me) };
                    Variant::new(gen_string(rng, c), fields, index, gen_docs(rng, c))
                })
                .collect();
            TypeDefVariant::new(vars).into()
        }
        2 => TypeDefSequence::new(ids.id(rng, me).into()).into(),
        3 => {
            let len = match rng.below(8) {
                0 => 0,
                1 => 1,
                2 => 32,
                3 => 255,
                4 => 256,
                5 => 65536,
                6 => u32::MAX,
                _ => rng.next_u32(),
            };
            TypeDefArray::new(len, ids.id(rng, me).into()).into()
        }
        4 => {
            let n = gen_count(rng, cfg);
            TypeDefTuple::new_portable((0..n).map(|_| ids.id(rng, me).into())).into()
        }
        5 => TypeDef::Primitive(rng.pick(&PRIMS).clone()),
        6 => TypeDefCompact::new(ids.id(rng, me).into()).into(),
        _ => TypeDefBitSequence::new_portable(ids.id(rng, me).into(), ids.id(rng, me).into()).into(),
    };
    let path = {
        let n = match rng.below(10) {
            0..=3 => 0,
            4..=6 => 1,
            7 | 8 => rng.range(2, 4),
            _ => gen_count(rng, cfg).min(70),
        };
        Path::from_segments_unchecked((0..n).map(|_| gen_string(rng, cfg)))
    };
    let params: Vec<PParam> = {
        let n = if rng.chance(3, 5) { 0 } else { gen_count(rng, cfg).min(70) };
        (0..n)
            .map(|_| {
                let ty = if rng.chance(1, 3) { None } else { Some(ids.id(rng, me).into()) };
                TypeParameter::new_portable(gen_string(rng, cfg), ty)
            })
            .collect()
    };
    Type::new(path, params, def, gen_docs(rng, cfg))
}

pub fn gen_registry(rng: &mut Rng, cfg: &Cfg) -> PortableRegistry {
    let n = match rng.below(20) {
        0 => 0,
        1 => 1,
        2 if cfg.mid => *rng.pick(&[63usize, 64, 65]),
        _ => rng.range(1, cfg.max_types.max(1)),
    };
    let shape = *rng.pick(&[
        Shape::Any,
        Shape::Any,
        Shape::Forward,
        Shape::Backward,
        Shape::SelfHeavy,
        Shape::Ring,
        Shape::Sparse,
    ]);
    let ids = IdGen { mode: cfg.mode, shape, n: n.max(1) };
    // every def kind appears in registries that are large enough
    let force = n >= 8 && rng.flip();
    let types = (0..n)
        .map(|i| {
            let id = match cfg.mode {
                Mode::WellFormed => i as u32,
                Mode::Arbitrary => {
                    if rng.flip() {
                        i as u32
                    } else {
                        arbitrary_id(rng)
                    }
                }
            };
            let fk = if force && i < 8 { Some(i) } else { None };
            PortableType::new(id, gen_type(rng, cfg, &ids, i, fk))
        })
        .collect();
    let mut reg = PortableRegistry { types };
    // Names that mean something elsewhere in the library (marker types, wrappers, keywords): in a portable registry they are
    // plain strings. Drawn from a side stream so that the main stream (and with it every earlier corpus) stays as it was.
    let mut side = rng.clone();
    if cfg.mode == Mode::Arbitrary && reg.types.len() >= 2 {
        match side.below(12) {
            // the labels are exactly 0..n, but not in position order (two swapped, or all shuffled): a table nobody may "tidy up"
            0 => {
                let n = reg.types.len();
                for (k, t) in reg.types.iter_mut().enumerate() {
                    t.id = k as u32;
                }
                let (a, b) = (side.below(n), side.below(n));
                let (ia, ib) = (reg.types[a].id, reg.types[b].id);
                reg.types[a].id = ib;
                reg.types[b].id = ia;
            }
            1 => {
                let n = reg.types.len();
                let mut ids: Vec<u32> = (0..n as u32).collect();
                side.shuffle(&mut ids);
                for (t, id) in reg.types.iter_mut().zip(ids) {
                    t.id = id;
                }
            }
            // an entry that occurs twice, label and definition alike
            2 => {
                let k = side.below(reg.types.len());
                let copy = reg.types[k].clone();
                let at = side.below(reg.types.len() + 1);
                reg.types.insert(at, copy);
            }
            _ => {}
        }
    }
    if side.chance(1, 5) {
        const LOADED: [&str; 14] = ["PhantomData<T>", "PhantomData", "core::marker::PhantomData<u8>", "::core::marker::PhantomData<(A, B)>", "marker::PhantomData<&'static T>", "Compact<u32>",
                                    "Box<PhantomData<T>>", "BitVec<u8, Lsb0>", "Self", "crate::Foo", "()", "!", "dyn Any", "<T as Trait>::Out"];
        for _ in 0..side.range(1, 3) {
            if reg.types.is_empty() {
                break;
            }
            let k = side.below(reg.types.len());
            let name = (*side.pick(&LOADED)).to_string();
            let t = &mut reg.types[k].ty;
            match &mut t.type_def {
                TypeDef::Composite(c) if !c.fields.is_empty() => {
                    let j = side.below(c.fields.len());
                    if side.flip() { c.fields[j].type_name = Some(name) } else { c.fields[j].name = Some(name) }
                }
                TypeDef::Variant(v) if !v.variants.is_empty() => {
                    let j = side.below(v.variants.len());
                    let var = &mut v.variants[j];
                    if var.fields.is_empty() || side.chance(1, 3) {
                        var.name = name;
                    } else {
                        let f = side.below(var.fields.len());
                        var.fields[f].type_name = Some(name);
                    }
                }
                _ => match side.below(3) {
                    0 => t.path.segments.push(name),
                    1 => t.docs.push(name),
                    _ => {
                        if let Some(p) = t.type_params.first_mut() {
                            p.name = name;
                        }
                    }
                },
            }
        }
    }
    reg
}

/// All type ids referenced by a type, by position kind.
/// kinds: 0 param, 1 composite field, 2 variant field, 3 sequence, 4 array, 5 tuple, 6 compact,
/// 7 bit store, 8 bit order
pub fn refs_of(ty: &PType) -> Vec<(u8, u32)> {
    let mut out = Vec::new();
    for p in &ty.type_params {
        if let Some(t) = &p.ty {
            out.push((0, t.id));
        }
    }
    match &ty.type_def {
        TypeDef::Composite(c) => out.extend(c.fields.iter().map(|f| (1, f.ty.id))),
        TypeDef::Variant(v) => {
            for var in &v.variants {
                out.extend(var.fields.iter().map(|f| (2, f.ty.id)));
            }
        }
        TypeDef::Sequence(s) => out.push((3, s.type_param.id)),
        TypeDef::Array(a) => out.push((4, a.type_param.id)),
        TypeDef::Tuple(t) => out.extend(t.fields.iter().map(|f| (5, f.id))),
        TypeDef::Primitive(_) => {}
        TypeDef::Compact(c) => out.push((6, c.type_param.id)),
        TypeDef::BitSequence(b) => {
            out.push((7, b.bit_store_type.id));
            out.push((8, b.bit_order_type.id));
        }
    }
    out
}

/// Mutable access to every referenced id (same order as `refs_of`).
pub fn refs_mut(ty: &mut PType) -> Vec<&mut u32> {
    let mut out: Vec<&mut u32> = Vec::new();
    for p in ty.type_params.iter_mut() {
        if let Some(t) = p.ty.as_mut() {
            out.push(&mut t.id);
        }
    }
    match &mut ty.type_def {
        TypeDef::Composite(c) => out.extend(c.fields.iter_mut().map(|f| &mut f.ty.id)),
        TypeDef::Variant(v) => {
            for var in v.variants.iter_mut() {
                out.extend(var.fields.iter_mut().map(|f| &mut f.ty.id));
            }
        }
        TypeDef::Sequence(s) => out.push(&mut s.type_param.id),
        TypeDef::Array(a) => out.push(&mut a.type_param.id),
        TypeDef::Tuple(t) => out.extend(t.fields.iter_mut().map(|f| &mut f.id)),
        TypeDef::Primitive(_) => {}
        TypeDef::Compact(c) => out.push(&mut c.type_param.id),
        TypeDef::BitSequence(b) => {
            out.push(&mut b.bit_store_type.id);
            out.push(&mut b.bit_order_type.id);
        }
    }
    out
}

fn all_strings_mut(ty: &mut PType) -> Vec<&mut String> {
    let mut out: Vec<&mut String> = Vec::new();
    out.extend(ty.path.segments.iter_mut());
    out.extend(ty.docs.iter_mut());
    for p in ty.type_params.iter_mut() {
        out.push(&mut p.name);
    }
    fn fields<'a>(fs: &'a mut Vec<PField>, out: &mut Vec<&'a mut String>) {
        for f in fs.iter_mut() {
            if let Some(n) = f.name.as_mut() {
                out.push(n);
            }
            if let Some(n) = f.type_name.as_mut() {
                out.push(n);
            }
            out.extend(f.docs.iter_mut());
        }
    }
    match &mut ty.type_def {
        TypeDef::Composite(c) => fields(&mut c.fields, &mut out),
        TypeDef::Variant(v) => {
            for var in v.variants.iter_mut() {
                out.push(&mut var.name);
                out.extend(var.docs.iter_mut());
                fields(&mut var.fields, &mut out);
            }
        }
        _ => {}
    }
    out
}

fn all_fields_mut(ty: &mut PType) -> Vec<&mut PField> {
    match &mut ty.type_def {
        TypeDef::Composite(c) => c.fields.iter_mut().collect(),
        TypeDef::Variant(v) => v.variants.iter_mut().flat_map(|x| x.fields.iter_mut()).collect(),
        _ => vec![],
    }
}

/// Produce a neighbour of `reg` by exactly one edit. Returns `None` when the chosen edit
/// is not applicable (caller retries). The result is guaranteed to differ from `reg` when
/// `Some` (checked by the caller with `!=`).
pub fn mutate(rng: &mut Rng, reg: &PortableRegistry) -> Option<(PortableRegistry, &'static str)> {
    let mut r = reg.clone();
    if r.types.is_empty() {
        let ids = IdGen { mode: Mode::Arbitrary, shape: Shape::Any, n: 1 };
        r.types.push(PortableType::new(0, gen_type(rng, &Cfg::small(Mode::Arbitrary), &ids, 0, None)));
        return Some((r, "push-type"));
    }
    let ti = rng.below(r.types.len());
    let kind = rng.below(23);
    let what: &'static str = match kind {
        0 => {
            r.types[ti].id = r.types[ti].id.wrapping_add(1);
            "entry-id+1"
        }
        1 => {
            r.types[ti].id ^= 1 << rng.below(32);
            "entry-id-bit"
        }
        2 => {
            let mut refs = refs_mut(&mut r.types[ti].ty);
            if refs.is_empty() {
                return None;
            }
            let k = rng.below(refs.len());
            *refs[k] = refs[k].wrapping_add(1);
            "ref-id+1"
        }
        3 => {
            let mut refs = refs_mut(&mut r.types[ti].ty);
            if refs.is_empty() {
                return None;
            }
            let k = rng.below(refs.len());
            *refs[k] ^= 1 << rng.below(32);
            "ref-id-bit"
        }
        4 => {
            let mut ss = all_strings_mut(&mut r.types[ti].ty);
            if ss.is_empty() {
                return None;
            }
            let k = rng.below(ss.len());
            ss[k].push('~');
            "string-append"
        }
        5 => {
            let mut ss = all_strings_mut(&mut r.types[ti].ty);
            if ss.is_empty() {
                return None;
            }
            let k = rng.below(ss.len());
            if ss[k].is_empty() {
                return None;
            }
            ss[k].pop();
            "string-pop"
        }
        6 => {
            r.types[ti].ty.docs.push(String::new());
            "docs-push-empty"
        }
        7 => {
            r.types[ti].ty.path.segments.push(String::new());
            "path-push-empty"
        }
        8 => {
            let mut fs = all_fields_mut(&mut r.types[ti].ty);
            if fs.is_empty() {
                return None;
            }
            let k = rng.below(fs.len());
            fs[k].name = match fs[k].name.take() {
                None => Some(String::new()),
                Some(_) => None,
            };
            "field-name-toggle"
        }
        9 => {
            let mut fs = all_fields_mut(&mut r.types[ti].ty);
            if fs.is_empty() {
                return None;
            }
            let k = rng.below(fs.len());
            fs[k].type_name = match fs[k].type_name.take() {
                None => Some(String::new()),
                Some(_) => None,
            };
            "field-typename-toggle"
        }
        10 => {
            let mut fs = all_fields_mut(&mut r.types[ti].ty);
            if fs.is_empty() {
                return None;
            }
            let k = rng.below(fs.len());
            // move the string between name and type_name
            if fs[k].name.is_some() && fs[k].type_name.is_none() {
                fs[k].type_name = fs[k].name.take();
            } else if fs[k].name.is_none() && fs[k].type_name.is_some() {
                fs[k].name = fs[k].type_name.take();
            } else {
                return None;
            }
            "field-name-typename-swap"
        }
        11 => {
            if let TypeDef::Variant(v) = &mut r.types[ti].ty.type_def {
                if v.variants.is_empty() {
                    return None;
                }
                let k = rng.below(v.variants.len());
                v.variants[k].index = v.variants[k].index.wrapping_add(1);
                "variant-index+1"
            } else {
                return None;
            }
        }
        12 => {
            if r.types[ti].ty.type_params.is_empty() {
                return None;
            }
            let k = rng.below(r.types[ti].ty.type_params.len());
            let p = &mut r.types[ti].ty.type_params[k];
            p.ty = match p.ty.take() {
                None => Some(0.into()),
                Some(_) => None,
            };
            "param-type-toggle"
        }
        13 => {
            // change def kind keeping one id: sequence <-> compact, array len
            let new = match &r.types[ti].ty.type_def {
                TypeDef::Sequence(s) => TypeDef::Compact(TypeDefCompact::new(s.type_param)),
                TypeDef::Compact(s) => TypeDef::Sequence(TypeDefSequence::new(s.type_param)),
                TypeDef::Array(a) => TypeDef::Array(TypeDefArray::new(a.len.wrapping_add(1), a.type_param)),
                TypeDef::BitSequence(b) => {
                    if b.bit_store_type == b.bit_order_type {
                        return None;
                    }
                    TypeDef::BitSequence(TypeDefBitSequence::new_portable(b.bit_order_type, b.bit_store_type))
                }
                TypeDef::Primitive(p) => {
                    let i = PRIMS.iter().position(|q| q == p).unwrap();
                    TypeDef::Primitive(PRIMS[(i + 1) % PRIMS.len()].clone())
                }
                TypeDef::Tuple(t) => {
                    // tuple -> composite of unnamed fields with same ids
                    TypeDef::Composite(TypeDefComposite::new(
                        t.fields.iter().map(|id| Field::new(None, *id, None, vec![])),
                    ))
                }
                TypeDef::Composite(c) => {
                    TypeDef::Variant(TypeDefVariant::new(vec![Variant::new(
                        String::new(),
                        c.fields.clone(),
                        0,
                        vec![],
                    )]))
                }
                TypeDef::Variant(v) => {
                    if v.variants.len() < 2 {
                        return None;
                    }
                    let mut vs = v.variants.clone();
                    vs.swap(0, 1);
                    TypeDef::Variant(TypeDefVariant::new(vs))
                }
            };
            r.types[ti].ty.type_def = new;
            "def-kind-change"
        }
        14 => {
            let t = r.types[ti].clone();
            r.types.insert(ti, t);
            "dup-entry"
        }
        15 => {
            r.types.remove(ti);
            "remove-entry"
        }
        16 => {
            if r.types.len() < 2 {
                return None;
            }
            let tj = rng.below(r.types.len());
            r.types.swap(ti, tj);
            "swap-entries"
        }
        17 => {
            // move a doc string from type docs into path (same strings, other vector)
            if let Some(d) = r.types[ti].ty.docs.pop() {
                r.types[ti].ty.path.segments.push(d);
                "doc-to-path"
            } else {
                return None;
            }
        }
        20 => {
            // prepend a segment: the shorter path becomes a proper tail of the longer one
            r.types[ti].ty.path.segments.insert(0, "krate".to_string());
            "path-prepend"
        }
        21 => {
            if r.types[ti].ty.path.segments.len() < 2 {
                return None;
            }
            r.types[ti].ty.path.segments.remove(0);
            "path-pop-front"
        }
        22 => {
            r.types[ti].ty.docs.insert(0, "first".to_string());
            "docs-prepend"
        }
        18 => {
            let mut fs = all_fields_mut(&mut r.types[ti].ty);
            if fs.is_empty() {
                return None;
            }
            let k = rng.below(fs.len());
            fs[k].docs.push(String::new());
            "field-docs-push"
        }
        _ => {
            if let TypeDef::Variant(v) = &mut r.types[ti].ty.type_def {
                if v.variants.is_empty() {
                    return None;
                }
                let k = rng.below(v.variants.len());
                // move first field out of variant into a new trailing variant
                if let Some(f) = v.variants[k].fields.pop() {
                    v.variants.push(Variant::new(String::new(), vec![f], 0, vec![]));
                    "split-variant"
                } else {
                    v.variants[k].docs.push(String::new());
                    "variant-docs-push"
                }
            } else {
                return None;
            }
        }
    };
    if &r == reg {
        return None;
    }
    Some((r, what))
}

pub fn def_kind(ty: &PType) -> usize {
    match &ty.type_def {
        TypeDef::Composite(_) => 0,
        TypeDef::Variant(_) => 1,
        TypeDef::Sequence(_) => 2,
        TypeDef::Array(_) => 3,
        TypeDef::Tuple(_) => 4,
        TypeDef::Primitive(_) => 5,
        TypeDef::Compact(_) => 6,
        TypeDef::BitSequence(_) => 7,
    }
}

pub const KIND_NAMES: [&str; 8] =
    ["composite", "variant", "sequence", "array", "tuple", "primitive", "compact", "bitsequence"];
