//! R8: explicit DFA for (r#)?[A-Za-z_][A-Za-z0-9_]* over bytes; any non-ASCII byte rejects.

#[derive(Clone, Copy, PartialEq, Eq, Debug)]
enum St {
    Start,
    /// saw a single leading 'r' (which is itself an identifier so far)
    R,
    /// saw "r#": now need head
    RawHead,
    /// inside identifier tail (accepting)
    Tail,
    Dead,
}

fn head(b: u8) -> bool {
    b == b'_' || (b'a'..=b'z').contains(&b) || (b'A'..=b'Z').contains(&b)
}
fn tail(b: u8) -> bool {
    head(b) || (b'0'..=b'9').contains(&b)
}

pub fn is_ident(s: &str) -> bool {
    let mut st = St::Start;
    for &b in s.as_bytes() {
        st = match st {
            St::Start => {
                if b == b'r' {
                    St::R
                } else if head(b) {
                    St::Tail
                } else {
                    St::Dead
                }
            }
            St::R => {
                if b == b'#' {
                    St::RawHead
                } else if tail(b) {
                    St::Tail
                } else {
                    St::Dead
                }
            }
            St::RawHead => {
                if head(b) {
                    St::Tail
                } else {
                    St::Dead
                }
            }
            St::Tail => {
                if tail(b) {
                    St::Tail
                } else {
                    St::Dead
                }
            }
            St::Dead => St::Dead,
        };
        if st == St::Dead {
            return false;
        }
    }
    matches!(st, St::R | St::Tail)
}

#[cfg(test)]
mod t {
    use super::is_ident;
    #[test]
    fn basics() {
        for ok in ["a", "r", "_", "r#x", "r#r", "rr", "r9", "_9", "Ab_9", "r#_"] {
            assert!(is_ident(ok), "{}", ok);
        }
        for bad in ["", "9", "r#", "r#9", "r#r#x", "#r", "a#", "é", "a b", "a::b", "r##", "a-b"] {
            assert!(!is_ident(bad), "{}", bad);
        }
    }
}
