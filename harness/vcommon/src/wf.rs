//! R1: well-formedness walker. Public fields only.

use crate::reggen::refs_of;
use scale_info::PortableRegistry;

#[derive(Default, Debug, Clone)]
pub struct WfStats {
    pub entries: u64,
    /// references visited per position kind (see reggen::refs_of)
    pub refs: [u64; 9],
}

pub const REF_KIND_NAMES: [&str; 9] = [
    "type_param", "composite_field", "variant_field", "sequence", "array", "tuple", "compact",
    "bit_store", "bit_order",
];

/// Ok(stats) when dense (types[i].id == i, resolve(i) is types[i].ty) and closed
/// (every mentioned id < len and resolves). Err(description) otherwise.
pub fn check(reg: &PortableRegistry, need_closed: bool) -> Result<WfStats, String> {
    let mut st = WfStats::default();
    let n = reg.types.len();
    for (i, t) in reg.types.iter().enumerate() {
        st.entries += 1;
        if t.id as usize != i {
            return Err(format!("entry at position {} carries id {}", i, t.id));
        }
        match reg.resolve(i as u32) {
            Some(r) => {
                if !std::ptr::eq(r, &t.ty) && r != &t.ty {
                    return Err(format!("resolve({}) is not the entry labelled {}", i, i));
                }
            }
            None => return Err(format!("resolve({}) is None for an existing entry", i)),
        }
        for (k, id) in refs_of(&t.ty) {
            st.refs[k as usize] += 1;
            if need_closed {
                if id as usize >= n {
                    return Err(format!(
                        "entry {} mentions id {} at a {} position but the registry has {} entries",
                        i, id, REF_KIND_NAMES[k as usize], n
                    ));
                }
                if reg.resolve(id).is_none() {
                    return Err(format!("entry {} mentions id {} which does not resolve", i, id));
                }
            }
        }
    }
    if reg.resolve(n as u32).is_some() {
        return Err(format!("resolve({}) answers for an id one past the end", n));
    }
    Ok(st)
}
