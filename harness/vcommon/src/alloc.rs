//! R10: counting allocator. Stores sizes only (no addresses), per thread.

use std::alloc::{GlobalAlloc, Layout, System};
use std::cell::Cell;

pub struct Counting;

thread_local! {
    static CUR: Cell<isize> = const { Cell::new(0) };
    static PEAK: Cell<isize> = const { Cell::new(0) };
    static ALLOCS: Cell<u64> = const { Cell::new(0) };
}

#[inline]
fn add(n: isize) {
    let _ = CUR.try_with(|c| {
        let v = c.get() + n;
        c.set(v);
        let _ = PEAK.try_with(|p| {
            if v > p.get() {
                p.set(v)
            }
        });
    });
    if n > 0 {
        let _ = ALLOCS.try_with(|a| a.set(a.get() + 1));
    }
}

unsafe impl GlobalAlloc for Counting {
    unsafe fn alloc(&self, l: Layout) -> *mut u8 {
        let p = System.alloc(l);
        if !p.is_null() {
            add(l.size() as isize);
        }
        p
    }
    unsafe fn dealloc(&self, p: *mut u8, l: Layout) {
        System.dealloc(p, l);
        add(-(l.size() as isize));
    }
    unsafe fn alloc_zeroed(&self, l: Layout) -> *mut u8 {
        let p = System.alloc_zeroed(l);
        if !p.is_null() {
            add(l.size() as isize);
        }
        p
    }
    unsafe fn realloc(&self, p: *mut u8, l: Layout, new: usize) -> *mut u8 {
        let q = System.realloc(p, l, new);
        if !q.is_null() {
            add(new as isize - l.size() as isize);
        }
        q
    }
}

/// Start a measurement window on this thread.
pub fn window_start() {
    CUR.with(|c| c.set(0));
    PEAK.with(|p| p.set(0));
    ALLOCS.with(|a| a.set(0));
}

/// Peak live bytes (relative to the window start) and number of allocations since then.
pub fn window_peak() -> (usize, u64) {
    (PEAK.with(|p| p.get()).max(0) as usize, ALLOCS.with(|a| a.get()))
}
