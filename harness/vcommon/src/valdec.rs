//! R3: schema-directed SCALE value decoder. Knows only a `PortableRegistry` and the SCALE rules.

use crate::val::Val;
use scale_info::{form::PortableForm, Field, PortableRegistry, TypeDef, TypeDefPrimitive};

pub struct In<'a> {
    pub b: &'a [u8],
    pub pos: usize,
    pub depth: u32,
}

type R<T> = Result<T, String>;

impl<'a> In<'a> {
    pub fn new(b: &'a [u8]) -> Self {
        In { b, pos: 0, depth: 0 }
    }
    fn take(&mut self, n: usize) -> R<&'a [u8]> {
        if self.b.len() - self.pos < n {
            return Err(format!("input ends at byte {} while {} more are needed", self.pos, n));
        }
        let s = &self.b[self.pos..self.pos + n];
        self.pos += n;
        Ok(s)
    }
    fn uint(&mut self, bytes: usize) -> R<u128> {
        let s = self.take(bytes)?;
        let mut v: u128 = 0;
        for (i, x) in s.iter().enumerate() {
            v |= (*x as u128) << (8 * i);
        }
        Ok(v)
    }
    fn sint(&mut self, bytes: usize) -> R<i128> {
        let u = self.uint(bytes)?;
        let bits = bytes * 8;
        if bits == 128 {
            return Ok(u as i128);
        }
        let sign = 1u128 << (bits - 1);
        Ok(if u & sign != 0 { (u as i128) - (1i128 << bits) } else { u as i128 })
    }
    /// General compact integer (all four modes), value up to 128 bits.
    pub fn compact(&mut self) -> R<u128> {
        let p = self.take(1)?[0];
        match p & 3 {
            0 => Ok((p >> 2) as u128),
            1 => {
                let hi = self.take(1)?[0];
                Ok((u16::from_le_bytes([p, hi]) >> 2) as u128)
            }
            2 => {
                let r = self.take(3)?;
                Ok((u32::from_le_bytes([p, r[0], r[1], r[2]]) >> 2) as u128)
            }
            _ => {
                let n = (p >> 2) as usize + 4;
                if n > 16 {
                    return Err(format!("compact big-integer of {} bytes", n));
                }
                self.uint(n)
            }
        }
    }
}

fn prim_bits(p: &TypeDefPrimitive) -> Option<(bool, usize)> {
    use TypeDefPrimitive::*;
    Some(match p {
        U8 => (false, 1),
        U16 => (false, 2),
        U32 => (false, 4),
        U64 => (false, 8),
        U128 => (false, 16),
        I8 => (true, 1),
        I16 => (true, 2),
        I32 => (true, 4),
        I64 => (true, 8),
        I128 => (true, 16),
        _ => return None,
    })
}

fn fields(reg: &PortableRegistry, fs: &[Field<PortableForm>], inp: &mut In) -> R<Vec<(Option<String>, Val)>> {
    let mut out = Vec::with_capacity(fs.len());
    for f in fs {
        out.push((f.name.clone(), decode(reg, f.ty.id, inp)?));
    }
    Ok(out)
}

/// compact encoding of a value of type `id`
fn decode_compact(reg: &PortableRegistry, id: u32, inp: &mut In) -> R<Val> {
    let ty = reg.resolve(id).ok_or_else(|| format!("compact of unknown id {}", id))?;
    match &ty.type_def {
        TypeDef::Primitive(p) => match prim_bits(p) {
            Some((false, bytes)) => {
                let v = inp.compact()?;
                if bytes < 16 && v >> (bytes * 8) != 0 {
                    return Err(format!("compact value {} does not fit {} bytes", v, bytes));
                }
                Ok(Val::U(v))
            }
            _ => Err(format!("compact of primitive {:?}", p)),
        },
        TypeDef::Tuple(t) if t.fields.is_empty() => Ok(Val::Tuple(vec![])),
        TypeDef::Composite(c) if c.fields.len() == 1 => {
            let f = &c.fields[0];
            Ok(Val::Composite(vec![(f.name.clone(), decode_compact(reg, f.ty.id, inp)?)]))
        }
        other => Err(format!("compact of a type that has no compact form: {:?}", other)),
    }
}

pub fn decode(reg: &PortableRegistry, id: u32, inp: &mut In) -> R<Val> {
    inp.depth += 1;
    if inp.depth > 400 {
        return Err("nesting deeper than 400".into());
    }
    let r = decode_inner(reg, id, inp);
    inp.depth -= 1;
    r
}

fn decode_inner(reg: &PortableRegistry, id: u32, inp: &mut In) -> R<Val> {
    let ty = reg.resolve(id).ok_or_else(|| format!("id {} does not resolve", id))?;
    match &ty.type_def {
        TypeDef::Composite(c) => Ok(Val::Composite(fields(reg, &c.fields, inp)?)),
        TypeDef::Variant(v) => {
            let idx = inp.take(1)?[0];
            let mut hit = v.variants.iter().filter(|x| x.index == idx);
            let var = hit.next().ok_or_else(|| format!("no variant with index {} in {:?}", idx, ty.path.segments))?;
            if hit.next().is_some() {
                return Err(format!("two variants carry index {} in {:?}", idx, ty.path.segments));
            }
            Ok(Val::Variant { name: var.name.clone(), index: Some(var.index), fields: fields(reg, &var.fields, inp)? })
        }
        TypeDef::Sequence(s) => {
            let n = inp.compact()? as usize;
            if n > inp.b.len() - inp.pos + 1 && !is_zero_sized(reg, s.type_param.id, 0) {
                return Err(format!("sequence of {} elements in {} remaining bytes", n, inp.b.len() - inp.pos));
            }
            let mut out = Vec::new();
            for _ in 0..n {
                out.push(decode(reg, s.type_param.id, inp)?);
            }
            Ok(Val::Seq(out))
        }
        TypeDef::Array(a) => {
            let mut out = Vec::new();
            for _ in 0..a.len {
                out.push(decode(reg, a.type_param.id, inp)?);
            }
            Ok(Val::Array(out))
        }
        TypeDef::Tuple(t) => {
            let mut out = Vec::new();
            for f in &t.fields {
                out.push(decode(reg, f.id, inp)?);
            }
            Ok(Val::Tuple(out))
        }
        TypeDef::Primitive(p) => {
            use TypeDefPrimitive::*;
            match p {
                Bool => match inp.take(1)?[0] {
                    0 => Ok(Val::Bool(false)),
                    1 => Ok(Val::Bool(true)),
                    x => Err(format!("bool byte {}", x)),
                },
                Char => Ok(Val::Char(inp.uint(4)? as u32)),
                Str => {
                    let n = inp.compact()? as usize;
                    let s = inp.take(n)?;
                    Ok(Val::Str(String::from_utf8(s.to_vec()).map_err(|_| "invalid utf-8 in str".to_string())?))
                }
                U256 | I256 => Err("256-bit primitives have no Rust value here".into()),
                _ => {
                    let (signed, bytes) = prim_bits(p).unwrap();
                    if signed {
                        Ok(Val::I(inp.sint(bytes)?))
                    } else {
                        Ok(Val::U(inp.uint(bytes)?))
                    }
                }
            }
        }
        TypeDef::Compact(c) => decode_compact(reg, c.type_param.id, inp),
        TypeDef::BitSequence(b) => {
            let store = reg.resolve(b.bit_store_type.id).ok_or("bit store type does not resolve")?;
            let order = reg.resolve(b.bit_order_type.id).ok_or("bit order type does not resolve")?;
            let width = match &store.type_def {
                TypeDef::Primitive(p) => match prim_bits(p) {
                    Some((false, bytes)) if bytes <= 8 => bytes * 8,
                    _ => return Err(format!("bit store {:?}", p)),
                },
                other => return Err(format!("bit store is not an unsigned primitive: {:?}", other)),
            };
            let msb = match order.path.segments.last().map(|s| s.as_str()) {
                Some("Lsb0") => false,
                Some("Msb0") => true,
                other => return Err(format!("bit order path {:?}", other)),
            };
            let nbits = inp.compact()? as usize;
            let words = (nbits + width - 1) / width;
            let mut ws = Vec::with_capacity(words);
            for _ in 0..words {
                ws.push(inp.uint(width / 8)?);
            }
            let mut bits = Vec::with_capacity(nbits);
            for i in 0..nbits {
                let w = ws[i / width];
                let k = i % width;
                let pos = if msb { width - 1 - k } else { k };
                bits.push((w >> pos) & 1 == 1);
            }
            Ok(Val::Bits(bits))
        }
    }
}

/// Conservative: does a value of this type possibly occupy zero bytes (unit-like)?
fn is_zero_sized(reg: &PortableRegistry, id: u32, depth: u32) -> bool {
    if depth > 8 {
        return false;
    }
    match reg.resolve(id).map(|t| &t.type_def) {
        Some(TypeDef::Composite(c)) => c.fields.iter().all(|f| is_zero_sized(reg, f.ty.id, depth + 1)),
        Some(TypeDef::Tuple(t)) => t.fields.iter().all(|f| is_zero_sized(reg, f.id, depth + 1)),
        Some(TypeDef::Array(a)) => a.len == 0 || is_zero_sized(reg, a.type_param.id, depth + 1),
        Some(TypeDef::Compact(c)) => is_zero_sized(reg, c.type_param.id, depth + 1),
        _ => false,
    }
}

/// Decode a whole value; must consume exactly all bytes.
pub fn decode_exact(reg: &PortableRegistry, id: u32, bytes: &[u8]) -> R<Val> {
    let mut inp = In::new(bytes);
    let v = decode(reg, id, &mut inp)?;
    if inp.pos != bytes.len() {
        return Err(format!("decoder consumed {} of {} bytes", inp.pos, bytes.len()));
    }
    Ok(v)
}
