//! `Val`: the value tree shared by the schema-directed decoder (R3) and the `Model` impls.

#[derive(Clone, Debug, PartialEq)]
pub enum Val {
    Bool(bool),
    U(u128),
    I(i128),
    Char(u32),
    Str(String),
    Bits(Vec<bool>),
    Seq(Vec<Val>),
    Array(Vec<Val>),
    Tuple(Vec<Val>),
    Composite(Vec<(Option<String>, Val)>),
    Variant { name: String, index: Option<u8>, fields: Vec<(Option<String>, Val)> },
    /// Model of a `PhantomData` member: dropped from composites / tuples, equal to the empty
    /// composite in element position.
    Phantom,
}

impl Val {
    /// Build a composite, dropping phantom members (erasure rule).
    pub fn composite(fields: Vec<(Option<&str>, Val)>) -> Val {
        Val::Composite(fields.into_iter().filter(|(_, v)| *v != Val::Phantom).map(|(n, v)| (n.map(|s| s.to_string()), v)).collect())
    }
    pub fn variant(name: &str, index: impl Into<Option<u8>>, fields: Vec<(Option<&str>, Val)>) -> Val {
        Val::Variant {
            name: name.to_string(),
            index: index.into(),
            fields: fields.into_iter().filter(|(_, v)| *v != Val::Phantom).map(|(n, v)| (n.map(|s| s.to_string()), v)).collect(),
        }
    }
    pub fn tuple(members: Vec<Val>) -> Val {
        Val::Tuple(members.into_iter().filter(|v| *v != Val::Phantom).collect())
    }
}

fn fields_eq(a: &[(Option<String>, Val)], b: &[(Option<String>, Val)]) -> bool {
    a.len() == b.len() && a.iter().zip(b).all(|(x, y)| x.0 == y.0 && val_eq(&x.1, &y.1))
}

/// Structural equality; `Phantom` equals the empty composite.
pub fn val_eq(a: &Val, b: &Val) -> bool {
    use Val::*;
    match (a, b) {
        (Phantom, Phantom) => true,
        (Phantom, Composite(f)) | (Composite(f), Phantom) => f.is_empty(),
        (Seq(x), Seq(y)) | (Array(x), Array(y)) | (Tuple(x), Tuple(y)) => x.len() == y.len() && x.iter().zip(y).all(|(p, q)| val_eq(p, q)),
        (Composite(x), Composite(y)) => fields_eq(x, y),
        (Variant { name: n1, index: i1, fields: f1 }, Variant { name: n2, index: i2, fields: f2 }) => n1 == n2 && (i1.is_none() || i2.is_none() || i1 == i2) && fields_eq(f1, f2),
        _ => a == b,
    }
}

/// Short rendering for reports.
pub fn show(v: &Val) -> String {
    let s = format!("{:?}", v);
    if s.len() > 1200 {
        format!("{}...", &s[..1200])
    } else {
        s
    }
}
