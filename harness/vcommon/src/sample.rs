//! `Sample` (boundary-heavy random values) and `Model` (the `Val` a value must decode to,
//! written from the documented shapes of C04) for the std types that have type info.

use crate::prng::Rng;
use crate::val::Val;
#[cfg(feature = "bit-vec")]
use bitvec::{order::BitOrder, store::BitStore, vec::BitVec};
use scale::Compact;
use std::borrow::Cow;
use std::collections::{BTreeMap, BTreeSet, BinaryHeap, VecDeque};
use std::marker::PhantomData;
use std::num::*;
use std::ops::{Range, RangeInclusive};
use std::rc::Rc;
use std::sync::Arc;
use std::time::Duration;

pub trait Sample: Sized {
    fn sample(r: &mut Rng, d: u32) -> Self;
}

pub trait Model {
    fn model(&self) -> Val;
}

/// collection length: small, boundary lengths rarely and only near the top
pub fn len(r: &mut Rng, d: u32) -> usize {
    if d == 0 {
        return 0;
    }
    let k = r.below(100);
    if d >= 3 && k == 99 && r.chance(1, 12) {
        // the compact length prefix crosses from two to four bytes
        *r.pick(&[16383usize, 16384, 16385])
    } else if d >= 3 && k >= 97 {
        *r.pick(&[63usize, 64, 65])
    } else if k < 25 {
        0
    } else if k < 55 {
        1
    } else {
        r.range(2, if d >= 2 { 4 } else { 2 })
    }
}

macro_rules! uint {
    ($($t:ty),*) => {$(
        impl Sample for $t {
            fn sample(r: &mut Rng, _d: u32) -> Self {
                match r.below(12) {
                    0 => 0,
                    1 => 1,
                    2 => 63,
                    3 => 64,
                    4 => ((1u128 << 14) - 1) as $t,
                    5 => (1u128 << 14) as $t,
                    6 => ((1u128 << 30) - 1) as $t,
                    7 => (1u128 << 30) as $t,
                    8 => <$t>::MAX,
                    9 => <$t>::MAX - 1,
                    10 => (r.next_u128() as $t) >> (r.below(<$t>::BITS as usize) as u32),
                    _ => r.next_u128() as $t,
                }
            }
        }
        impl Model for $t {
            fn model(&self) -> Val { Val::U(*self as u128) }
        }
    )*};
}
uint!(u8, u16, u32, u64, u128);

macro_rules! sint {
    ($($t:ty),*) => {$(
        impl Sample for $t {
            fn sample(r: &mut Rng, _d: u32) -> Self {
                match r.below(8) {
                    0 => 0,
                    1 => 1,
                    2 => -1,
                    3 => <$t>::MAX,
                    4 => <$t>::MIN,
                    5 => <$t>::MIN + 1,
                    _ => r.next_u128() as $t,
                }
            }
        }
        impl Model for $t {
            fn model(&self) -> Val { Val::I(*self as i128) }
        }
    )*};
}
sint!(i8, i16, i32, i64, i128);

impl Sample for bool {
    fn sample(r: &mut Rng, _d: u32) -> Self {
        r.flip()
    }
}
impl Model for bool {
    fn model(&self) -> Val {
        Val::Bool(*self)
    }
}

const STRS: [&str; 10] = ["", "a", "hello", "é", "日本", "😀", "\0", "a\"b\\c", "line\nbreak", "r#x"];

impl Sample for String {
    fn sample(r: &mut Rng, d: u32) -> Self {
        if d >= 3 && r.chance(1, 40) {
            "x".repeat(*r.pick(&[63usize, 64, 65]))
        } else {
            (*r.pick(&STRS)).to_string()
        }
    }
}
impl Model for str {
    fn model(&self) -> Val {
        Val::Str(self.to_string())
    }
}
impl Model for String {
    fn model(&self) -> Val {
        Val::Str(self.clone())
    }
}
impl Sample for &'static str {
    fn sample(r: &mut Rng, d: u32) -> Self {
        Box::leak(String::sample(r, d).into_boxed_str())
    }
}

// ---- sequences
impl<T: Sample> Sample for Vec<T> {
    fn sample(r: &mut Rng, d: u32) -> Self {
        let n = len(r, d);
        (0..n).map(|_| T::sample(r, d.saturating_sub(1))).collect()
    }
}
impl<T: Model> Model for [T] {
    fn model(&self) -> Val {
        Val::Seq(self.iter().map(|x| x.model()).collect())
    }
}
impl<T: Model> Model for Vec<T> {
    fn model(&self) -> Val {
        self[..].model()
    }
}
impl<T: Sample> Sample for VecDeque<T> {
    fn sample(r: &mut Rng, d: u32) -> Self {
        let mut v: VecDeque<T> = Vec::<T>::sample(r, d).into();
        // rotate so that the ring buffer is not contiguous
        if v.len() > 1 && r.flip() {
            v.rotate_left(1);
        }
        v
    }
}
impl<T: Model> Model for VecDeque<T> {
    fn model(&self) -> Val {
        Val::Seq(self.iter().map(|x| x.model()).collect())
    }
}
impl<T: Sample + 'static> Sample for &'static [T] {
    fn sample(r: &mut Rng, d: u32) -> Self {
        Box::leak(Vec::<T>::sample(r, d).into_boxed_slice())
    }
}
impl<T: Sample> Sample for Box<[T]> {
    fn sample(r: &mut Rng, d: u32) -> Self {
        Vec::<T>::sample(r, d).into_boxed_slice()
    }
}
impl<T: Sample + Ord> Sample for BTreeSet<T> {
    fn sample(r: &mut Rng, d: u32) -> Self {
        Vec::<T>::sample(r, d).into_iter().collect()
    }
}
impl<T: Model> Model for BTreeSet<T> {
    fn model(&self) -> Val {
        Val::composite(vec![(None, Val::Seq(self.iter().map(|x| x.model()).collect()))])
    }
}
impl<T: Sample + Ord> Sample for BinaryHeap<T> {
    fn sample(r: &mut Rng, d: u32) -> Self {
        Vec::<T>::sample(r, d).into_iter().collect()
    }
}
impl<T: Model> Model for BinaryHeap<T> {
    fn model(&self) -> Val {
        Val::composite(vec![(None, Val::Seq(self.iter().map(|x| x.model()).collect()))])
    }
}
impl<K: Sample + Ord, V: Sample> Sample for BTreeMap<K, V> {
    fn sample(r: &mut Rng, d: u32) -> Self {
        let n = len(r, d);
        (0..n).map(|_| (K::sample(r, d.saturating_sub(1)), V::sample(r, d.saturating_sub(1)))).collect()
    }
}
impl<K: Model, V: Model> Model for BTreeMap<K, V> {
    fn model(&self) -> Val {
        Val::composite(vec![(None, Val::Seq(self.iter().map(|(k, v)| Val::tuple(vec![k.model(), v.model()])).collect()))])
    }
}

// ---- option / result
impl<T: Sample> Sample for Option<T> {
    fn sample(r: &mut Rng, d: u32) -> Self {
        if d == 0 || r.chance(1, 3) {
            None
        } else {
            Some(T::sample(r, d.saturating_sub(1)))
        }
    }
}
impl<T: Model> Model for Option<T> {
    fn model(&self) -> Val {
        match self {
            None => Val::variant("None", 0, vec![]),
            Some(x) => Val::variant("Some", 1, vec![(None, x.model())]),
        }
    }
}
impl<T: Sample, E: Sample> Sample for Result<T, E> {
    fn sample(r: &mut Rng, d: u32) -> Self {
        if r.flip() {
            Ok(T::sample(r, d.saturating_sub(1)))
        } else {
            Err(E::sample(r, d.saturating_sub(1)))
        }
    }
}
impl<T: Model, E: Model> Model for Result<T, E> {
    fn model(&self) -> Val {
        match self {
            Ok(x) => Val::variant("Ok", 0, vec![(None, x.model())]),
            Err(x) => Val::variant("Err", 1, vec![(None, x.model())]),
        }
    }
}

// ---- transparent wrappers
impl<T: Sample> Sample for Box<T> {
    fn sample(r: &mut Rng, d: u32) -> Self {
        Box::new(T::sample(r, d))
    }
}
impl<T: Model + ?Sized> Model for Box<T> {
    fn model(&self) -> Val {
        (**self).model()
    }
}
impl<T: Sample> Sample for Rc<T> {
    fn sample(r: &mut Rng, d: u32) -> Self {
        Rc::new(T::sample(r, d))
    }
}
impl<T: Model + ?Sized> Model for Rc<T> {
    fn model(&self) -> Val {
        (**self).model()
    }
}
impl<T: Sample> Sample for Arc<T> {
    fn sample(r: &mut Rng, d: u32) -> Self {
        Arc::new(T::sample(r, d))
    }
}
impl<T: Model + ?Sized> Model for Arc<T> {
    fn model(&self) -> Val {
        (**self).model()
    }
}
/// `&'static T` for sized T (slices and str have their own impls above).
pub struct RefOf<T>(PhantomData<T>);
impl<T: Sample + 'static> Sample for &'static T {
    fn sample(r: &mut Rng, d: u32) -> Self {
        Box::leak(Box::new(T::sample(r, d)))
    }
}
impl<T: Model + ?Sized> Model for &T {
    fn model(&self) -> Val {
        (**self).model()
    }
}
impl<T: Sample + 'static> Sample for &'static mut T {
    fn sample(r: &mut Rng, d: u32) -> Self {
        Box::leak(Box::new(T::sample(r, d)))
    }
}
impl<T: Model + ?Sized> Model for &mut T {
    fn model(&self) -> Val {
        (**self).model()
    }
}

// ---- Cow
impl<T: ToOwned + ?Sized + 'static> Sample for Cow<'static, T>
where
    T::Owned: Sample,
{
    fn sample(r: &mut Rng, d: u32) -> Self {
        Cow::Owned(<T::Owned as Sample>::sample(r, d))
    }
}
impl<T: ToOwned + Model + ?Sized> Model for Cow<'_, T> {
    fn model(&self) -> Val {
        Val::composite(vec![(None, (**self).model())])
    }
}

// ---- Compact
macro_rules! compact {
    ($($t:ty),*) => {$(
        impl Sample for Compact<$t> {
            fn sample(r: &mut Rng, d: u32) -> Self { Compact(<$t>::sample(r, d)) }
        }
        impl Model for Compact<$t> {
            fn model(&self) -> Val { self.0.model() }
        }
    )*};
}
compact!(u8, u16, u32, u64, u128);
impl Sample for Compact<()> {
    fn sample(_r: &mut Rng, _d: u32) -> Self {
        Compact(())
    }
}
impl Model for Compact<()> {
    fn model(&self) -> Val {
        Val::Tuple(vec![])
    }
}

// ---- ranges
impl<T: Sample> Sample for Range<T> {
    fn sample(r: &mut Rng, d: u32) -> Self {
        T::sample(r, d)..T::sample(r, d)
    }
}
impl<T: Model> Model for Range<T> {
    fn model(&self) -> Val {
        Val::composite(vec![(Some("start"), self.start.model()), (Some("end"), self.end.model())])
    }
}
impl<T: Sample> Sample for RangeInclusive<T> {
    fn sample(r: &mut Rng, d: u32) -> Self {
        T::sample(r, d)..=T::sample(r, d)
    }
}
impl<T: Model> Model for RangeInclusive<T> {
    fn model(&self) -> Val {
        Val::composite(vec![(Some("start"), self.start().model()), (Some("end"), self.end().model())])
    }
}

// ---- NonZero
macro_rules! nonzero {
    ($($nz:ty : $t:ty),*) => {$(
        impl Sample for $nz {
            fn sample(r: &mut Rng, d: u32) -> Self {
                loop {
                    if let Some(x) = <$nz>::new(<$t>::sample(r, d)) { return x; }
                }
            }
        }
        impl Model for $nz {
            fn model(&self) -> Val { Val::composite(vec![(None, self.get().model())]) }
        }
    )*};
}
nonzero!(NonZeroU8: u8, NonZeroU16: u16, NonZeroU32: u32, NonZeroU64: u64, NonZeroU128: u128,
         NonZeroI8: i8, NonZeroI16: i16, NonZeroI32: i32, NonZeroI64: i64, NonZeroI128: i128);

impl Sample for Duration {
    fn sample(r: &mut Rng, d: u32) -> Self {
        let nanos = match r.below(4) {
            0 => 0,
            1 => 999_999_999,
            _ => r.next_u32() % 1_000_000_000,
        };
        Duration::new(u64::sample(r, d), nanos)
    }
}
impl Model for Duration {
    fn model(&self) -> Val {
        Val::composite(vec![(None, Val::U(self.as_secs() as u128)), (None, Val::U(self.subsec_nanos() as u128))])
    }
}

impl<T> Sample for PhantomData<T> {
    fn sample(_r: &mut Rng, _d: u32) -> Self {
        PhantomData
    }
}
impl<T> Model for PhantomData<T> {
    fn model(&self) -> Val {
        Val::Phantom
    }
}

impl<T: Sample> Sample for crate::hand::units::PhantomData<T> {
    fn sample(r: &mut Rng, d: u32) -> Self {
        crate::hand::units::PhantomData(T::sample(r, d.saturating_sub(1)))
    }
}
impl<T: Model> Model for crate::hand::units::PhantomData<T> {
    fn model(&self) -> Val {
        Val::composite(vec![(None, self.0.model())])
    }
}

impl Sample for () {
    fn sample(_r: &mut Rng, _d: u32) -> Self {}
}
impl Model for () {
    fn model(&self) -> Val {
        Val::Tuple(vec![])
    }
}

macro_rules! tuples {
    ($( ( $($n:ident),+ ) )*) => {$(
        impl<$($n: Sample),+> Sample for ($($n,)+) {
            fn sample(r: &mut Rng, d: u32) -> Self { ($($n::sample(r, d.saturating_sub(1)),)+) }
        }
        impl<$($n: Model),+> Model for ($($n,)+) {
            #[allow(non_snake_case)]
            fn model(&self) -> Val {
                let ($($n,)+) = self;
                Val::tuple(vec![$($n.model()),+])
            }
        }
    )*};
}
tuples! {
    (A) (A,B) (A,B,C) (A,B,C,D) (A,B,C,D,E) (A,B,C,D,E,F) (A,B,C,D,E,F,G) (A,B,C,D,E,F,G,H)
    (A,B,C,D,E,F,G,H,I) (A,B,C,D,E,F,G,H,I,J) (A,B,C,D,E,F,G,H,I,J,K) (A,B,C,D,E,F,G,H,I,J,K,L)
    (A,B,C,D,E,F,G,H,I,J,K,L,M) (A,B,C,D,E,F,G,H,I,J,K,L,M,N) (A,B,C,D,E,F,G,H,I,J,K,L,M,N,O)
    (A,B,C,D,E,F,G,H,I,J,K,L,M,N,O,P) (A,B,C,D,E,F,G,H,I,J,K,L,M,N,O,P,Q) (A,B,C,D,E,F,G,H,I,J,K,L,M,N,O,P,Q,R)
}

impl<T: Sample, const N: usize> Sample for [T; N] {
    fn sample(r: &mut Rng, d: u32) -> Self {
        // large arrays of compound elements get shallow elements
        let dd = if N > 8 { 0 } else { d.saturating_sub(1) };
        core::array::from_fn(|_| T::sample(r, dd))
    }
}
impl<T: Model, const N: usize> Model for [T; N] {
    fn model(&self) -> Val {
        Val::Array(self.iter().map(|x| x.model()).collect())
    }
}

#[cfg(feature = "bit-vec")]
impl<T: BitStore, O: BitOrder> Sample for BitVec<T, O> {
    fn sample(r: &mut Rng, _d: u32) -> Self {
        let w = core::mem::size_of::<T>() * 8;
        let n = match r.below(8) {
            0 => 0,
            1 => 1,
            2 => w - 1,
            3 => w,
            4 => w + 1,
            5 => 2 * w,
            _ => r.below(3 * w + 2),
        };
        let mut v = BitVec::<T, O>::new();
        for _ in 0..n {
            v.push(r.flip());
        }
        v
    }
}
#[cfg(feature = "bit-vec")]
impl<T: BitStore, O: BitOrder> Model for BitVec<T, O> {
    fn model(&self) -> Val {
        Val::Bits(self.iter().map(|b| *b).collect())
    }
}
