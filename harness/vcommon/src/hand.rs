//! Hand-written `TypeInfo` impls with per-thread evaluation counters: cyclic graphs, graphs that
//! are cyclic only through type parameters, a diamond, and a type reachable only as a type parameter.

use scale_info::{build::*, MetaType, Path, Type, TypeInfo, TypeParameter};
use std::cell::RefCell;
use std::collections::HashMap;

thread_local! {
    static EVALS: RefCell<HashMap<&'static str, u64>> = RefCell::new(HashMap::new());
    static COUNTING: std::cell::Cell<bool> = const { std::cell::Cell::new(false) };
}

/// Evaluations are counted only while the library under test is running (not the oracles' own walks).
pub fn counting(on: bool) {
    COUNTING.with(|c| c.set(on));
}

pub fn bump(name: &'static str) {
    if COUNTING.with(|c| c.get()) {
        EVALS.with(|e| *e.borrow_mut().entry(name).or_insert(0) += 1);
    }
}
pub fn reset_evals() {
    EVALS.with(|e| e.borrow_mut().clear());
}
pub fn evals() -> HashMap<&'static str, u64> {
    EVALS.with(|e| e.borrow().clone())
}

const M: &str = "verif::hand";

/// self recursive through Option<Box<..>> and Vec<..>
pub struct SelfRec;
impl TypeInfo for SelfRec {
    type Identity = Self;
    fn type_info() -> Type {
        bump("SelfRec");
        Type::builder().path(Path::new("SelfRec", M)).docs_always(&["self recursive"]).composite(
            Fields::named()
                .field(|f| f.ty::<Option<Box<SelfRec>>>().name("next").type_name("Option<Box<SelfRec>>"))
                .field(|f| f.ty::<Vec<SelfRec>>().name("kids").type_name("Vec<SelfRec>"))
                .field(|f| f.ty::<u8>().name("v").type_name("u8")),
        )
    }
}

/// mutual recursion A <-> B
pub struct MutA;
pub struct MutB;
impl TypeInfo for MutA {
    type Identity = Self;
    fn type_info() -> Type {
        bump("MutA");
        Type::builder().path(Path::new("MutA", M)).composite(Fields::unnamed().field(|f| f.ty::<Box<MutB>>().type_name("Box<MutB>")))
    }
}
impl TypeInfo for MutB {
    type Identity = Self;
    fn type_info() -> Type {
        bump("MutB");
        Type::builder().path(Path::new("MutB", M)).variant(
            Variants::new()
                .variant("Stop", |v| v.index(0))
                .variant("Go", |v| v.index(7).fields(Fields::named().field(|f| f.ty::<MutA>().name("a").type_name("MutA")).field(|f| f.ty::<[MutB; 2]>().name("bs").type_name("[MutB; 2]")))),
        )
    }
}

/// three-cycle through different positions: tuple, sequence, compact-wrapper-free array
pub struct Cyc1;
pub struct Cyc2;
pub struct Cyc3;
impl TypeInfo for Cyc1 {
    type Identity = Self;
    fn type_info() -> Type {
        bump("Cyc1");
        Type::builder().path(Path::new("Cyc1", M)).composite(Fields::unnamed().field(|f| f.ty::<(u8, Cyc2)>()))
    }
}
impl TypeInfo for Cyc2 {
    type Identity = Self;
    fn type_info() -> Type {
        bump("Cyc2");
        Type::builder().path(Path::new("Cyc2", M)).composite(Fields::unnamed().field(|f| f.ty::<Vec<Cyc3>>()))
    }
}
impl TypeInfo for Cyc3 {
    type Identity = Self;
    fn type_info() -> Type {
        bump("Cyc3");
        Type::builder().path(Path::new("Cyc3", M)).composite(Fields::unnamed().field(|f| f.ty::<Option<Cyc1>>()))
    }
}

/// A leaf that is mentioned only as a type parameter of `ParamOnly`.
pub struct OnlyAsParam;
impl TypeInfo for OnlyAsParam {
    type Identity = Self;
    fn type_info() -> Type {
        bump("OnlyAsParam");
        Type::builder().path(Path::new("OnlyAsParam", M)).composite(Fields::unit())
    }
}
/// No field mentions its parameter: the parameter's type is reachable only through `type_params`.
pub struct ParamOnly;
impl TypeInfo for ParamOnly {
    type Identity = Self;
    fn type_info() -> Type {
        bump("ParamOnly");
        Type::builder()
            .path(Path::new("ParamOnly", M))
            .type_params(vec![TypeParameter::new("T", Some(MetaType::new::<OnlyAsParam>())), TypeParameter::new("Skipped", None)])
            .composite(Fields::named().field(|f| f.ty::<u32>().name("n").type_name("u32")))
    }
}

/// Cyclic only through type parameters: PCycA<PCycB>, PCycB<PCycA>.
pub struct PCycA;
pub struct PCycB;
impl TypeInfo for PCycA {
    type Identity = Self;
    fn type_info() -> Type {
        bump("PCycA");
        Type::builder().path(Path::new("PCycA", M)).type_params(vec![TypeParameter::new("B", Some(MetaType::new::<PCycB>()))]).composite(Fields::unit())
    }
}
impl TypeInfo for PCycB {
    type Identity = Self;
    fn type_info() -> Type {
        bump("PCycB");
        Type::builder()
            .path(Path::new("PCycB", M))
            .type_params(vec![TypeParameter::new("A", Some(MetaType::new::<PCycA>())), TypeParameter::new("Me", Some(MetaType::new::<PCycB>()))])
            .variant(Variants::new().variant_unit("Only", 3))
    }
}

/// Diamond: Top -> {Left, Right} -> Shared
pub struct Shared;
pub struct Left;
pub struct Right;
pub struct Top;
impl TypeInfo for Shared {
    type Identity = Self;
    fn type_info() -> Type {
        bump("Shared");
        Type::builder().path(Path::new("Shared", M)).composite(Fields::unnamed().field(|f| f.ty::<u64>().type_name("u64")))
    }
}
impl TypeInfo for Left {
    type Identity = Self;
    fn type_info() -> Type {
        bump("Left");
        Type::builder().path(Path::new("Left", M)).composite(Fields::named().field(|f| f.ty::<Shared>().name("s").type_name("Shared")))
    }
}
impl TypeInfo for Right {
    type Identity = Self;
    fn type_info() -> Type {
        bump("Right");
        Type::builder().path(Path::new("Right", M)).composite(Fields::named().field(|f| f.ty::<Rc<Shared>>().name("s").type_name("Rc<Shared>")))
    }
}
use std::rc::Rc;
impl TypeInfo for Top {
    type Identity = Self;
    fn type_info() -> Type {
        bump("Top");
        Type::builder().path(Path::new("Top", M)).composite(
            Fields::named()
                .field(|f| f.ty::<Left>().name("l").type_name("Left"))
                .field(|f| f.ty::<Right>().name("r").type_name("Right"))
                .field(|f| f.ty::<std::marker::PhantomData<Top>>().name("p").type_name("PhantomData<Top>")),
        )
    }
}

/// A primitive definition that carries a path, a type parameter and docs (a U256-style newtype described by hand).
pub struct NamedPrim;
impl TypeInfo for NamedPrim {
    type Identity = Self;
    fn type_info() -> Type {
        bump("NamedPrim");
        Type::new(
            Path::new("NamedPrim", M),
            vec![TypeParameter::new("Unit", Some(MetaType::new::<OnlyAsParam>())), TypeParameter::new("Skipped", None)],
            scale_info::TypeDefPrimitive::U256,
            vec!["a 256-bit amount"],
        )
    }
}

/// A bit sequence described by hand with the user's own order marker (no bitvec needed).
pub mod order {
    use super::*;
    /// stand-in for bitvec's `Lsb0`, declared by the user
    pub struct Lsb0;
    impl TypeInfo for Lsb0 {
        type Identity = Self;
        fn type_info() -> Type {
            Type::builder().path(Path::new("Lsb0", "verif::hand::order")).composite(Fields::unit())
        }
    }
    pub struct Msb0;
    impl TypeInfo for Msb0 {
        type Identity = Self;
        fn type_info() -> Type {
            Type::builder().path(Path::new("Msb0", "verif::hand::order")).composite(Fields::unit())
        }
    }
}
pub struct HandBits;
impl TypeInfo for HandBits {
    type Identity = Self;
    fn type_info() -> Type {
        bump("HandBits");
        scale_info::TypeDefBitSequence::new::<u16, order::Lsb0>().into()
    }
}
pub struct HandBitsMsb;
impl TypeInfo for HandBitsMsb {
    type Identity = Self;
    fn type_info() -> Type {
        bump("HandBitsMsb");
        scale_info::TypeDefBitSequence::new::<u16, order::Msb0>().into()
    }
}

/// Two different types with the same name, declared in sibling block scopes (their `type_name` is identical).
pub trait Scoped {
    type Ty: TypeInfo + 'static;
}
pub struct ScopeA;
pub struct ScopeB;
const _: () = {
    {
        pub struct Local(u8);
        impl TypeInfo for Local {
            type Identity = Self;
            fn type_info() -> Type {
                Type::builder().path(Path::new("Local", M)).composite(Fields::unnamed().field(|f| f.ty::<u8>().type_name("u8")))
            }
        }
        impl Scoped for ScopeA {
            type Ty = Local;
        }
    }
    {
        pub struct Local(u16, u16);
        impl TypeInfo for Local {
            type Identity = Self;
            fn type_info() -> Type {
                Type::builder()
                    .path(Path::new("Local", M))
                    .composite(Fields::unnamed().field(|f| f.ty::<u16>().type_name("u16")).field(|f| f.ty::<u16>().type_name("u16")))
            }
        }
        impl Scoped for ScopeB {
            type Ty = Local;
        }
    }
};
pub type LocalA = <ScopeA as Scoped>::Ty;
pub type LocalB = <ScopeB as Scoped>::Ty;

/// Same path and shape as `Shared` but a different Rust type: must never merge with it.
pub struct SharedTwin;
impl TypeInfo for SharedTwin {
    type Identity = Self;
    fn type_info() -> Type {
        bump("SharedTwin");
        Type::builder().path(Path::new("Shared", M)).composite(Fields::unnamed().field(|f| f.ty::<u64>().type_name("u64")))
    }
}

/// An alias declared by hand: identity of `Shared`.
pub struct SharedAlias;
impl TypeInfo for SharedAlias {
    type Identity = Shared;
    fn type_info() -> Type {
        Shared::type_info()
    }
}

pub const INSTRUMENTED: [&str; 17] = [
    "NamedPrim",
    "SelfRec", "MutA", "MutB", "Cyc1", "Cyc2", "Cyc3", "OnlyAsParam", "ParamOnly", "PCycA", "PCycB", "Shared", "Left", "Right", "Top", "SharedTwin", "SharedAlias",
];

thread_local! {
    static FAULT: std::cell::Cell<bool> = const { std::cell::Cell::new(false) };
}

/// Failpoint: while set, `FaultyLeaf::type_info()` panics on this thread (an injected fault inside a registration).
pub fn set_fault(on: bool) {
    FAULT.with(|f| f.set(on));
}

pub struct FaultyLeaf;
impl TypeInfo for FaultyLeaf {
    type Identity = Self;
    fn type_info() -> Type {
        if FAULT.with(|f| f.get()) {
            panic!("injected fault: type_info() of FaultyLeaf fails");
        }
        Type::builder().path(Path::new("FaultyLeaf", M)).composite(Fields::unit())
    }
}

/// A sibling of the failing member that completes before the failure is reached (its own members are new types too).
pub struct FaultyGood;
impl TypeInfo for FaultyGood {
    type Identity = Self;
    fn type_info() -> Type {
        Type::builder()
            .path(Path::new("FaultyGood", M))
            .composite(Fields::named().field(|f| f.ty::<[i16; 7]>().name("x").type_name("[i16; 7]")).field(|f| f.ty::<(i8, i8)>().name("y").type_name("(i8, i8)")))
    }
}

pub struct FaultyParent;
impl TypeInfo for FaultyParent {
    type Identity = Self;
    fn type_info() -> Type {
        Type::builder()
            .path(Path::new("FaultyParent", M))
            .composite(Fields::named().field(|f| f.ty::<FaultyGood>().name("good").type_name("FaultyGood")).field(|f| f.ty::<FaultyLeaf>().name("broken").type_name("FaultyLeaf")))
    }
}

/// A composite assembled by hand (not through the typestate builders) whose members are partly named, partly not.
pub struct MixedFields;
impl TypeInfo for MixedFields {
    type Identity = Self;
    fn type_info() -> Type {
        use scale_info::{Field, TypeDefComposite};
        let fields = vec![
            Field::new(Some("first"), scale_info::meta_type::<u8>(), Some("u8"), vec![]),
            Field::new(None, scale_info::meta_type::<u16>(), Some("u16"), vec!["an unnamed member between named ones"]),
            Field::new(Some("third"), scale_info::meta_type::<bool>(), None, vec![]),
        ];
        Type::new(Path::new("MixedFields", M), vec![], TypeDefComposite::new(fields), vec![])
    }
}

/// The same for a variant's members.
pub struct MixedVariant;
impl TypeInfo for MixedVariant {
    type Identity = Self;
    fn type_info() -> Type {
        use scale_info::{Field, TypeDefVariant, Variant};
        let fields = vec![Field::new(None, scale_info::meta_type::<u32>(), Some("u32"), vec![]), Field::new(Some("named"), scale_info::meta_type::<u8>(), Some("u8"), vec![])];
        Type::new(Path::new("MixedVariant", M), vec![], TypeDefVariant::new(vec![Variant::new("Only", fields, 7, vec![])]), vec![])
    }
}

thread_local! {
    static NEST_GUARD: std::cell::Cell<bool> = const { std::cell::Cell::new(false) };
    static NESTED: RefCell<Option<Vec<u8>>> = const { RefCell::new(None) };
}

/// What a registry of the three roots around `NestOuter` looks like (SCALE bytes), built right here.
pub fn nest_reference() -> Vec<u8> {
    use scale::Encode;
    let was = NEST_GUARD.with(|g| g.replace(true));
    let mut r = scale_info::Registry::new();
    r.register_type(&scale_info::meta_type::<NestOuter>());
    r.register_type(&scale_info::meta_type::<u8>());
    r.register_type(&scale_info::meta_type::<[u8; 9]>());
    NEST_GUARD.with(|g| g.set(was));
    scale_info::PortableRegistry::from(r).encode()
}

/// The bytes of the registry that `NestInner::type_info()` built *while another registry was evaluating it* (taken once).
pub fn take_nested() -> Option<Vec<u8>> {
    NESTED.with(|n| n.borrow_mut().take())
}

/// A type whose description is computed with the help of a second, private registry (as a `type_info()` that consults
/// metadata of other types may do): two registries are alive, nested, on one thread.
pub struct NestInner;
impl TypeInfo for NestInner {
    type Identity = Self;
    fn type_info() -> Type {
        if !NEST_GUARD.with(|g| g.get()) {
            let bytes = nest_reference();
            NESTED.with(|n| *n.borrow_mut() = Some(bytes));
        }
        Type::builder().path(Path::new("NestInner", M)).composite(Fields::unnamed().field(|f| f.ty::<u64>().type_name("u64")))
    }
}

pub struct NestOuter;
impl TypeInfo for NestOuter {
    type Identity = Self;
    fn type_info() -> Type {
        Type::builder()
            .path(Path::new("NestOuter", M))
            .composite(Fields::named().field(|f| f.ty::<NestInner>().name("inner").type_name("NestInner")).field(|f| f.ty::<[u8; 9]>().name("tail").type_name("[u8; 9]")))
    }
}

/// Derived types whose names are not ASCII: the derive hands `module_path!()` and the identifier to `Path::new*`.
#[allow(non_snake_case)]
pub mod non_ascii {
    #[derive(scale_info::TypeInfo)]
    pub struct Größe;
    #[derive(scale_info::TypeInfo)]
    #[scale_info(replace_segment("Maß", "Mass"))]
    pub struct Maß(pub u8);
    pub mod ünï {
        #[derive(scale_info::TypeInfo)]
        pub struct Plain;
        #[derive(scale_info::TypeInfo)]
        #[scale_info(replace_segment("ünï", "uni"))]
        pub struct Repaired;
    }
}

/// A user type that merely shares its *name* with core's marker type: an ordinary one-member struct whose member
/// is encoded and must be described wherever the type is used as a member. (Sample / Model impls: sample.rs)
pub mod units {
    #[derive(scale_info::TypeInfo, scale::Encode, Clone, Debug, PartialEq, Eq)]
    pub struct PhantomData<T>(pub T);
}
