//! Per-property run reports, parallel case runner, panic capture.

use serde_json::{json, Value};
use std::cell::RefCell;
use std::collections::{BTreeMap, HashSet};
use std::panic::{catch_unwind, AssertUnwindSafe};
use std::sync::atomic::{AtomicBool, AtomicU64, Ordering};
use std::sync::Mutex;
use std::time::{Duration, Instant};

#[derive(Clone, Debug)]
pub struct Violation {
    pub key: String,
    pub msg: String,
    pub case: Value,
}

#[derive(Default, Debug)]
pub struct Report {
    pub evaluations: u64,
    pub distinct: HashSet<u64>,
    pub counters: BTreeMap<String, u64>,
    pub maxes: BTreeMap<String, u64>,
    pub sets: BTreeMap<String, std::collections::BTreeSet<String>>,
    pub samples: Vec<Value>,
    pub violations: Vec<Violation>,
    pub violation_count: u64,
    pub inconclusive: Vec<String>,
}

pub const MAX_SAMPLES: usize = 6;
pub const MAX_VIOLATIONS: usize = 40;

impl Report {
    pub fn count(&mut self, k: &str, n: u64) {
        *self.counters.entry(k.to_string()).or_insert(0) += n;
    }
    pub fn max(&mut self, k: &str, v: u64) {
        let e = self.maxes.entry(k.to_string()).or_insert(0);
        if v > *e {
            *e = v;
        }
    }
    pub fn seen(&mut self, set: &str, item: &str) {
        let s = self.sets.entry(set.to_string()).or_default();
        if s.len() < 400 {
            s.insert(item.to_string());
        }
    }
    pub fn eval(&mut self, nontrivial_hash: Option<u64>) {
        self.evaluations += 1;
        if let Some(h) = nontrivial_hash {
            self.distinct.insert(h);
        }
    }
    pub fn sample(&mut self, v: impl FnOnce() -> Value) {
        if self.samples.len() < MAX_SAMPLES {
            self.samples.push(v());
        }
    }
    pub fn violation(&mut self, key: &str, msg: String, case: Value) {
        self.violation_count += 1;
        // keep at most a few per key so that one noisy key cannot hide the others
        let same = self.violations.iter().filter(|v| v.key == key).count();
        if self.violations.len() < MAX_VIOLATIONS && same < 3 {
            self.violations.push(Violation { key: key.to_string(), msg, case });
        } else {
            self.count(&format!("violations_dropped[{}]", key), 1);
        }
    }
    pub fn inconclusive(&mut self, why: String) {
        if self.inconclusive.len() < 20 {
            self.inconclusive.push(why);
        }
    }
    pub fn merge(&mut self, o: Report) {
        self.evaluations += o.evaluations;
        self.distinct.extend(o.distinct);
        for (k, v) in o.counters {
            *self.counters.entry(k).or_insert(0) += v;
        }
        for (k, v) in o.maxes {
            let e = self.maxes.entry(k).or_insert(0);
            if v > *e {
                *e = v;
            }
        }
        for (k, v) in o.sets {
            self.sets.entry(k).or_default().extend(v);
        }
        for s in o.samples {
            if self.samples.len() < MAX_SAMPLES {
                self.samples.push(s);
            }
        }
        self.violation_count += o.violation_count;
        for v in o.violations {
            let same = self.violations.iter().filter(|x| x.key == v.key).count();
            if self.violations.len() < MAX_VIOLATIONS && same < 3 {
                self.violations.push(v);
            }
        }
        for i in o.inconclusive {
            self.inconclusive(i);
        }
    }
    pub fn to_json(&self, with_hashes: bool) -> Value {
        let mut v = json!({
            "evaluations": self.evaluations,
            "distinct_nontrivial": self.distinct.len(),
            "counters": self.counters,
            "maxes": self.maxes,
            "sets": self.sets,
            "samples": self.samples,
            "violation_count": self.violation_count,
            "violations": self.violations.iter().map(|x| json!({"key": x.key, "msg": x.msg, "case": x.case})).collect::<Vec<_>>(),
            "inconclusive": self.inconclusive,
        });
        if with_hashes {
            let mut hs: Vec<String> = self.distinct.iter().map(|h| format!("{:016x}", h)).collect();
            hs.sort();
            v["distinct_hashes"] = json!(hs);
        }
        v
    }
}

thread_local! {
    static LAST_PANIC: RefCell<Option<String>> = RefCell::new(None);
    static QUIET: RefCell<bool> = RefCell::new(false);
}

/// Install a panic hook that stays silent for guarded calls (and records the message) but
/// prints for everything else.
pub fn install_panic_hook() {
    let prev = std::panic::take_hook();
    std::panic::set_hook(Box::new(move |info| {
        let quiet = QUIET.with(|q| *q.borrow());
        let msg = {
            let p = info.payload();
            let s = if let Some(s) = p.downcast_ref::<&str>() {
                s.to_string()
            } else if let Some(s) = p.downcast_ref::<String>() {
                s.clone()
            } else {
                "<non-string panic>".to_string()
            };
            match info.location() {
                Some(l) => format!("{} @ {}:{}", s, l.file(), l.line()),
                None => s,
            }
        };
        LAST_PANIC.with(|l| *l.borrow_mut() = Some(msg));
        if !quiet {
            prev(info);
        }
    }));
}

/// Run a library call; a panic becomes Err(message).
pub fn guard<T>(f: impl FnOnce() -> T) -> Result<T, String> {
    QUIET.with(|q| *q.borrow_mut() = true);
    let r = catch_unwind(AssertUnwindSafe(f));
    QUIET.with(|q| *q.borrow_mut() = false);
    r.map_err(|_| LAST_PANIC.with(|l| l.borrow_mut().take()).unwrap_or_else(|| "panic".into()))
}

pub struct RunCfg {
    pub threads: usize,
    pub cases: u64,
    pub first_case: u64,
    pub max_secs: f64,
    /// single-stepped re-runs: the index of the case about to run is written here first
    pub progress: Option<String>,
}

/// Run `cases` cases on `threads` threads. Each case is identified by its index so that it
/// can be replayed alone. A panic escaping a case (i.e. not inside `guard`) is a harness
/// error and is reported as inconclusive.
pub fn run_parallel<F>(cfg: &RunCfg, f: F) -> Report
where
    F: Fn(u64, &mut Report) + Sync,
{
    let next = AtomicU64::new(cfg.first_case);
    let end = cfg.first_case + cfg.cases;
    let stop = AtomicBool::new(false);
    let start = Instant::now();
    let total = Mutex::new(Report::default());
    let budget = Duration::from_secs_f64(cfg.max_secs);
    std::thread::scope(|s| {
        for _ in 0..cfg.threads.max(1) {
            // deep type nestings recurse deeply inside the library (registration, retain): give the workers room
            std::thread::Builder::new().stack_size(256 << 20).spawn_scoped(s, || {
                let mut rep = Report::default();
                loop {
                    if stop.load(Ordering::Relaxed) {
                        break;
                    }
                    let i = next.fetch_add(1, Ordering::Relaxed);
                    if i >= end {
                        break;
                    }
                    if start.elapsed() > budget {
                        stop.store(true, Ordering::Relaxed);
                        rep.count("stopped_by_time_budget", 1);
                        break;
                    }
                    if let Some(p) = &cfg.progress {
                        let _ = std::fs::write(p, format!("{}", i));
                    }
                    let r = catch_unwind(AssertUnwindSafe(|| f(i, &mut rep)));
                    if r.is_err() {
                        let m = LAST_PANIC.with(|l| l.borrow_mut().take()).unwrap_or_default();
                        if m.contains("@ /repo/") {
                            // the panic comes out of the library itself while the harness was merely constructing values through
                            // public, infallible constructors (every call that may legitimately panic runs under `guard`)
                            rep.violation(
                                "LIB/panic-outside-monitored-call",
                                format!("the library panicked while the harness was preparing case {} through public constructors: {}", i, m),
                                serde_json::json!({"case": i}),
                            );
                        } else {
                            rep.inconclusive(format!("harness panic in case {}: {}", i, m));
                        }
                    }
                    rep.count("cases_run", 1);
                }
                total.lock().unwrap().merge(rep);
            })
            .expect("spawn worker");
        }
    });
    total.into_inner().unwrap()
}
