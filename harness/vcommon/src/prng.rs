//! Deterministic PRNG (xoshiro256**) seeded through splitmix64. No external crates.

#[derive(Clone, Debug)]
pub struct Rng {
    s: [u64; 4],
}

fn splitmix(x: &mut u64) -> u64 {
    *x = x.wrapping_add(0x9E37_79B9_7F4A_7C15);
    let mut z = *x;
    z = (z ^ (z >> 30)).wrapping_mul(0xBF58_476D_1CE4_E5B9);
    z = (z ^ (z >> 27)).wrapping_mul(0x94D0_49BB_1331_11EB);
    z ^ (z >> 31)
}

impl Rng {
    pub fn new(seed: u64) -> Self {
        let mut x = seed ^ 0xD1B5_4A32_D192_ED03;
        let s = [
            splitmix(&mut x),
            splitmix(&mut x),
            splitmix(&mut x),
            splitmix(&mut x),
        ];
        Rng { s }
    }

    /// Derive an independent stream (seed, stream id).
    pub fn derive(seed: u64, stream: u64) -> Self {
        let mut x = seed.wrapping_mul(0x2545_F491_4F6C_DD1D) ^ stream.wrapping_mul(0x9E37_79B9_7F4A_7C15);
        let a = splitmix(&mut x);
        Rng::new(a ^ stream.rotate_left(17))
    }

    pub fn next_u64(&mut self) -> u64 {
        let r = self.s[1].wrapping_mul(5).rotate_left(7).wrapping_mul(9);
        let t = self.s[1] << 17;
        self.s[2] ^= self.s[0];
        self.s[3] ^= self.s[1];
        self.s[1] ^= self.s[2];
        self.s[0] ^= self.s[3];
        self.s[2] ^= t;
        self.s[3] = self.s[3].rotate_left(45);
        r
    }

    pub fn next_u32(&mut self) -> u32 {
        (self.next_u64() >> 32) as u32
    }

    pub fn next_u128(&mut self) -> u128 {
        ((self.next_u64() as u128) << 64) | self.next_u64() as u128
    }

    /// Uniform in 0..n (n > 0).
    pub fn below(&mut self, n: usize) -> usize {
        debug_assert!(n > 0);
        (self.next_u64() % n as u64) as usize
    }

    /// Uniform in lo..=hi.
    pub fn range(&mut self, lo: usize, hi: usize) -> usize {
        lo + self.below(hi - lo + 1)
    }

    pub fn chance(&mut self, num: u32, den: u32) -> bool {
        (self.next_u64() % den as u64) < num as u64
    }

    pub fn flip(&mut self) -> bool {
        self.next_u64() & 1 == 1
    }

    pub fn pick<'a, T>(&mut self, xs: &'a [T]) -> &'a T {
        &xs[self.below(xs.len())]
    }

    pub fn shuffle<T>(&mut self, xs: &mut [T]) {
        for i in (1..xs.len()).rev() {
            let j = self.below(i + 1);
            xs.swap(i, j);
        }
    }

    pub fn bytes(&mut self, n: usize) -> Vec<u8> {
        (0..n).map(|_| self.next_u64() as u8).collect()
    }
}

/// Deterministic 64-bit content hash (SipHash-1-3 with fixed keys via std).
pub fn hash_bytes(b: &[u8]) -> u64 {
    use std::hash::Hasher;
    #[allow(deprecated)]
    let mut h = std::collections::hash_map::DefaultHasher::new();
    h.write(b);
    h.finish()
}
