//! R9 declaration model of a generated definition (one instantiation), and the C09 comparison.

use scale_info::{form::MetaForm, Field, MetaType, TypeDef};
use std::any::TypeId;

pub struct FieldM {
    pub name: Option<&'static str>,
    pub ty: fn() -> TypeId,
    /// false for members the statement does not settle (encoded_as)
    pub check_ty: bool,
    /// declared type's source text, lifetimes as 'static, all whitespace removed
    pub type_name: &'static str,
    /// expected doc lines when docs are captured
    pub docs: &'static [&'static str],
}

pub struct VariantM {
    pub name: &'static str,
    pub index: u8,
    pub fields: &'static [FieldM],
    pub docs: &'static [&'static str],
}

pub enum Body {
    Struct(&'static [FieldM]),
    Enum(&'static [VariantM]),
}

pub struct Decl {
    pub inst: &'static str,
    pub meta: fn() -> MetaType,
    pub path: &'static [&'static str],
    pub params: &'static [(&'static str, Option<fn() -> TypeId>)],
    /// 0 default, 1 always, 2 never
    pub capture: u8,
    pub docs: &'static [&'static str],
    pub body: Body,
}

fn squash(s: &str) -> String {
    s.chars().filter(|c| !c.is_whitespace()).collect()
}

pub struct Stats {
    pub fields: u64,
    pub docs_lines: u64,
    pub variants: u64,
}

impl Decl {
    /// Compare `type_info()` of this instantiation with the declaration model.
    /// `docs_feature`: whether scale-info's `docs` feature is on in this build.
    pub fn check(&self, docs_feature: bool) -> Result<Stats, (String, String)> {
        let mut st = Stats { fields: 0, docs_lines: 0, variants: 0 };
        let ty = (self.meta)().type_info();
        let captured = self.capture == 1 || (self.capture == 0 && docs_feature);
        fn mk<T>(inst: &str, k: &str, m: String) -> Result<T, (String, String)> {
            Err((format!("C09/{}", k), format!("{}: {}", inst, m)))
        }
        let e = |k: &str, m: String| mk::<Stats>(self.inst, k, m);
        let e0 = |k: &str, m: String| mk::<()>(self.inst, k, m);
        if ty.path.segments != self.path {
            return e("path", format!("path {:?}, declaration gives {:?}", ty.path.segments, self.path));
        }
        if ty.type_params.len() != self.params.len() {
            return e("type-params", format!("{} type parameters, declaration has {}", ty.type_params.len(), self.params.len()));
        }
        for (got, (name, want)) in ty.type_params.iter().zip(self.params) {
            if got.name != *name {
                return e("type-params", format!("parameter named {:?}, declared {:?}", got.name, name));
            }
            match (&got.ty, want) {
                (None, None) => {}
                (Some(m), Some(w)) => {
                    if m.type_id() != w() {
                        return e("type-params", format!("parameter {} carries a different type than its argument", name));
                    }
                }
                (Some(_), None) => return e("skip-type-params", format!("parameter {} is in skip_type_params but carries a type", name)),
                (None, Some(_)) => return e("type-params", format!("parameter {} carries no type although it is not skipped", name)),
            }
        }
        let want_docs = |d: &'static [&'static str]| -> Vec<&'static str> { if captured { d.to_vec() } else { vec![] } };
        if ty.docs != want_docs(self.docs) {
            return e(if captured { "docs" } else { "docs-captured-when-off" }, format!("type docs {:?}, expected {:?}", ty.docs, want_docs(self.docs)));
        }
        st.docs_lines += ty.docs.len() as u64;
        let fields = |got: &[Field<MetaForm>], want: &[FieldM], at: &str, st: &mut Stats| -> Result<(), (String, String)> {
            if got.len() != want.len() {
                return e0("members", format!("{}: {} members listed, declaration has {} (after skip / PhantomData)", at, got.len(), want.len()));
            }
            for (i, (g, w)) in got.iter().zip(want).enumerate() {
                st.fields += 1;
                if g.name != w.name {
                    return e0("member-name", format!("{} member {}: name {:?}, declared {:?}", at, i, g.name, w.name));
                }
                if w.check_ty && g.ty.type_id() != (w.ty)() {
                    return e0("member-type", format!("{} member {} ({:?}): type is not the declared type `{}`", at, i, w.name, w.type_name));
                }
                match g.type_name {
                    Some(tn) if squash(tn) == w.type_name => {}
                    other => return e0("type-name", format!("{} member {}: type name {:?}, declared text `{}`", at, i, other, w.type_name)),
                }
                let wd = want_docs(w.docs);
                if g.docs != wd {
                    return e0(if captured { "docs" } else { "docs-captured-when-off" }, format!("{} member {}: docs {:?}, expected {:?}", at, i, g.docs, wd));
                }
                st.docs_lines += g.docs.len() as u64;
            }
            Ok(())
        };
        match (&ty.type_def, &self.body) {
            (TypeDef::Composite(c), Body::Struct(w)) => fields(&c.fields, w, "struct", &mut st)?,
            (TypeDef::Variant(v), Body::Enum(w)) => {
                if v.variants.len() != w.len() {
                    return e("variants", format!("{} variants listed, declaration has {} non-skipped", v.variants.len(), w.len()));
                }
                for (g, w) in v.variants.iter().zip(w.iter()) {
                    st.variants += 1;
                    if g.name != w.name {
                        return e("variant-name", format!("variant {:?}, declared {:?}", g.name, w.name));
                    }
                    let wd = want_docs(w.docs);
                    if g.docs != wd {
                        return e(if captured { "docs" } else { "docs-captured-when-off" }, format!("variant {}: docs {:?}, expected {:?}", w.name, g.docs, wd));
                    }
                    fields(&g.fields, w.fields, w.name, &mut st)?;
                }
            }
            _ => return e("kind", "definition kind differs from the declaration".to_string()),
        }
        Ok(st)
    }
}
