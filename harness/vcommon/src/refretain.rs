//! R7: reference retain = reachability closure over all reference positions + independent
//! id-renaming comparison.

use crate::reggen::{refs_mut, refs_of};
use scale_info::PortableRegistry;
use std::collections::{BTreeMap, BTreeSet};

/// Closure of `accepted` under "mentions". `with_params=false` ignores type-parameter
/// positions (used only for coverage accounting).
pub fn closure(reg: &PortableRegistry, accepted: &[u32], with_params: bool) -> BTreeSet<u32> {
    let mut seen = BTreeSet::new();
    let mut stack: Vec<u32> = accepted.to_vec();
    while let Some(i) = stack.pop() {
        if !seen.insert(i) {
            continue;
        }
        for (k, id) in refs_of(&reg.types[i as usize].ty) {
            if k == 0 && !with_params {
                continue;
            }
            if !seen.contains(&id) {
                stack.push(id);
            }
        }
    }
    seen
}

/// Check the outcome of `retain` against the specification. `before` must be well-formed.
pub fn check(
    before: &PortableRegistry,
    accepted: &[u32],
    after: &PortableRegistry,
    map: &BTreeMap<u32, u32>,
) -> Result<(), String> {
    crate::wf::check(after, true).map_err(|e| format!("result not well-formed: {}", e))?;
    let want = closure(before, accepted, true);
    let got: BTreeSet<u32> = map.keys().copied().collect();
    if want != got {
        let missing: Vec<_> = want.difference(&got).take(5).collect();
        let extra: Vec<_> = got.difference(&want).take(5).collect();
        return Err(format!(
            "map keys differ from reachable set: missing {:?} extra {:?} (reachable {}, keys {})",
            missing,
            extra,
            want.len(),
            got.len()
        ));
    }
    let vals: BTreeSet<u32> = map.values().copied().collect();
    if vals.len() != map.len() {
        return Err("map is not injective".into());
    }
    if after.types.len() != map.len() {
        return Err(format!("result has {} entries but map has {}", after.types.len(), map.len()));
    }
    if vals.iter().next_back().map_or(false, |m| *m as usize >= after.types.len()) {
        return Err("map value out of range of the result".into());
    }
    for (old, new) in map {
        let entry = &after.types[*new as usize];
        if entry.id != *new {
            return Err(format!("retained entry for old id {} has id {} at position {}", old, entry.id, new));
        }
        let mut expect = before.types[*old as usize].ty.clone();
        for r in refs_mut(&mut expect) {
            match map.get(r) {
                Some(n) => *r = *n,
                None => return Err(format!("old id {} mentions {} which the map lacks", old, r)),
            }
        }
        if expect != entry.ty {
            return Err(format!(
                "retained entry {} (old {}) is not the original with ids renamed:\n  expected {:?}\n  got      {:?}",
                new, old, expect, entry.ty
            ));
        }
    }
    Ok(())
}
