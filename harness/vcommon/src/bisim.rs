//! R2: meta <-> portable bisimulation, and an independent walk of `type_info()` graphs.

use scale_info::{form::MetaForm, Field, MetaType, PortableRegistry, TypeDef};
use std::any::TypeId;
use std::collections::{HashMap, HashSet};

#[derive(Default)]
pub struct Bisim {
    /// TypeId -> portable id it was paired with
    pub paired: HashMap<TypeId, u32>,
    /// every distinct compile-time definition met under one type identity (two Rust types may declare the same
    /// identity: both definitions must be the one the registry holds)
    pub defs: HashMap<TypeId, Vec<scale_info::Type<MetaForm>>>,
    pub types_compared: u64,
    pub fields_compared: u64,
    pub max_depth: u32,
    pub cycles_cut: u64,
}

type R = Result<(), String>;

fn strs(a: &[&'static str], b: &[String], what: &str, at: &str) -> R {
    if a.len() != b.len() || a.iter().zip(b).any(|(x, y)| x != y) {
        return Err(format!("{}: {} differ: type_info() has {:?}, registry has {:?}", at, what, a, b));
    }
    Ok(())
}

impl Bisim {
    pub fn conforms(&mut self, meta: &MetaType, id: u32, reg: &PortableRegistry, depth: u32) -> R {
        let m = meta.type_info();
        if let Some(prev) = self.paired.get(&meta.type_id()) {
            if *prev != id {
                return Err(format!("one type identity is paired with two ids: {} and {}", prev, id));
            }
            // the coinduction hypothesis covers this (identity, id) pair only for a definition already compared
            let known = self.defs.entry(meta.type_id()).or_default();
            if known.iter().any(|d| d == &m) {
                self.cycles_cut += 1;
                return Ok(());
            }
            known.push(m.clone());
        } else {
            self.paired.insert(meta.type_id(), id);
            self.defs.entry(meta.type_id()).or_default().push(m.clone());
        }
        self.max_depth = self.max_depth.max(depth);
        let p = reg.resolve(id).ok_or_else(|| format!("id {} does not resolve", id))?;
        let at = format!("id {} ({})", id, if m.path.segments.is_empty() { format!("{:?}", kind(&m.type_def)) } else { m.path.segments.join("::") });
        self.compare(&m, p, reg, depth, &at)
    }

    /// Compare one compile-time definition with one portable definition (children are paired).
    pub fn compare(&mut self, m: &scale_info::Type<MetaForm>, p: &scale_info::Type<scale_info::form::PortableForm>, reg: &PortableRegistry, depth: u32, at: &str) -> R {
        let at = at.to_string();
        self.types_compared += 1;
        strs(&m.path.segments, &p.path.segments, "path", &at)?;
        strs(&m.docs, &p.docs, "docs", &at)?;
        if m.type_params.len() != p.type_params.len() {
            return Err(format!("{}: {} type parameters vs {}", at, m.type_params.len(), p.type_params.len()));
        }
        for (a, b) in m.type_params.iter().zip(&p.type_params) {
            if a.name != b.name {
                return Err(format!("{}: type parameter name {:?} vs {:?}", at, a.name, b.name));
            }
            match (&a.ty, &b.ty) {
                (None, None) => {}
                (Some(x), Some(y)) => self.conforms(x, y.id, reg, depth + 1)?,
                _ => return Err(format!("{}: type parameter {} skipped on one side only", at, a.name)),
            }
        }
        match (&m.type_def, &p.type_def) {
            (TypeDef::Composite(a), TypeDef::Composite(b)) => self.fields(&a.fields, &b.fields, reg, depth, &at)?,
            (TypeDef::Variant(a), TypeDef::Variant(b)) => {
                if a.variants.len() != b.variants.len() {
                    return Err(format!("{}: {} variants vs {}", at, a.variants.len(), b.variants.len()));
                }
                for (x, y) in a.variants.iter().zip(&b.variants) {
                    if x.name != y.name {
                        return Err(format!("{}: variant name {:?} vs {:?}", at, x.name, y.name));
                    }
                    if x.index != y.index {
                        return Err(format!("{}: variant {} index {} vs {}", at, x.name, x.index, y.index));
                    }
                    strs(&x.docs, &y.docs, "variant docs", &at)?;
                    self.fields(&x.fields, &y.fields, reg, depth, &format!("{} variant {}", at, x.name))?;
                }
            }
            (TypeDef::Sequence(a), TypeDef::Sequence(b)) => self.conforms(&a.type_param, b.type_param.id, reg, depth + 1)?,
            (TypeDef::Array(a), TypeDef::Array(b)) => {
                if a.len != b.len {
                    return Err(format!("{}: array length {} vs {}", at, a.len, b.len));
                }
                self.conforms(&a.type_param, b.type_param.id, reg, depth + 1)?
            }
            (TypeDef::Tuple(a), TypeDef::Tuple(b)) => {
                if a.fields.len() != b.fields.len() {
                    return Err(format!("{}: tuple arity {} vs {}", at, a.fields.len(), b.fields.len()));
                }
                for (x, y) in a.fields.iter().zip(&b.fields) {
                    self.conforms(x, y.id, reg, depth + 1)?;
                }
            }
            (TypeDef::Primitive(a), TypeDef::Primitive(b)) => {
                if a != b {
                    return Err(format!("{}: primitive {:?} vs {:?}", at, a, b));
                }
            }
            (TypeDef::Compact(a), TypeDef::Compact(b)) => self.conforms(&a.type_param, b.type_param.id, reg, depth + 1)?,
            (TypeDef::BitSequence(a), TypeDef::BitSequence(b)) => {
                self.conforms(&a.bit_store_type, b.bit_store_type.id, reg, depth + 1)?;
                self.conforms(&a.bit_order_type, b.bit_order_type.id, reg, depth + 1)?;
            }
            (a, b) => return Err(format!("{}: definition kind {} vs {}", at, kind(a), kind_p(b))),
        }
        Ok(())
    }

    fn fields(&mut self, a: &[Field<MetaForm>], b: &[Field<scale_info::form::PortableForm>], reg: &PortableRegistry, depth: u32, at: &str) -> R {
        if a.len() != b.len() {
            return Err(format!("{}: {} fields vs {}", at, a.len(), b.len()));
        }
        for (i, (x, y)) in a.iter().zip(b).enumerate() {
            self.fields_compared += 1;
            if x.name.map(|s| s.to_string()) != y.name {
                return Err(format!("{}: field {} name {:?} vs {:?}", at, i, x.name, y.name));
            }
            if x.type_name.map(|s| s.to_string()) != y.type_name {
                return Err(format!("{}: field {} type name {:?} vs {:?}", at, i, x.type_name, y.type_name));
            }
            strs(&x.docs, &y.docs, "field docs", at)?;
            self.conforms(&x.ty, y.ty.id, reg, depth + 1)?;
        }
        Ok(())
    }
}

fn kind(d: &TypeDef<MetaForm>) -> &'static str {
    match d {
        TypeDef::Composite(_) => "composite",
        TypeDef::Variant(_) => "variant",
        TypeDef::Sequence(_) => "sequence",
        TypeDef::Array(_) => "array",
        TypeDef::Tuple(_) => "tuple",
        TypeDef::Primitive(_) => "primitive",
        TypeDef::Compact(_) => "compact",
        TypeDef::BitSequence(_) => "bitsequence",
    }
}
fn kind_p(d: &TypeDef<scale_info::form::PortableForm>) -> &'static str {
    crate::reggen::KIND_NAMES[match d {
        TypeDef::Composite(_) => 0,
        TypeDef::Variant(_) => 1,
        TypeDef::Sequence(_) => 2,
        TypeDef::Array(_) => 3,
        TypeDef::Tuple(_) => 4,
        TypeDef::Primitive(_) => 5,
        TypeDef::Compact(_) => 6,
        TypeDef::BitSequence(_) => 7,
    }]
}

/// All `MetaType`s directly mentioned by a compile-time definition, with position kind
/// (same numbering as reggen::refs_of).
pub fn children(t: &scale_info::Type<MetaForm>) -> Vec<(u8, MetaType)> {
    let mut out = Vec::new();
    for p in &t.type_params {
        if let Some(m) = &p.ty {
            out.push((0, *m));
        }
    }
    match &t.type_def {
        TypeDef::Composite(c) => out.extend(c.fields.iter().map(|f| (1, f.ty))),
        TypeDef::Variant(v) => {
            for var in &v.variants {
                out.extend(var.fields.iter().map(|f| (2, f.ty)));
            }
        }
        TypeDef::Sequence(s) => out.push((3, s.type_param)),
        TypeDef::Array(a) => out.push((4, a.type_param)),
        TypeDef::Tuple(t) => out.extend(t.fields.iter().map(|f| (5, *f))),
        TypeDef::Primitive(_) => {}
        TypeDef::Compact(c) => out.push((6, c.type_param)),
        TypeDef::BitSequence(b) => {
            out.push((7, b.bit_store_type));
            out.push((8, b.bit_order_type));
        }
    }
    out
}

/// Independent reachability over `type_info()` graphs: the set of distinct type identities
/// reachable from `roots` (roots included when `include_roots`).
pub fn reachable(roots: &[(MetaType, bool)]) -> HashSet<TypeId> {
    let mut seen: HashSet<TypeId> = HashSet::new();
    let mut stack: Vec<MetaType> = Vec::new();
    // roots with `false` are "converted but not interned themselves" (map_into_portable of a Type)
    let mut expanded_only: HashSet<TypeId> = HashSet::new();
    for (m, include) in roots {
        if *include {
            stack.push(*m);
        } else if expanded_only.insert(m.type_id()) || true {
            for (_, c) in children(&m.type_info()) {
                stack.push(c);
            }
        }
    }
    while let Some(m) = stack.pop() {
        if !seen.insert(m.type_id()) {
            continue;
        }
        for (_, c) in children(&m.type_info()) {
            if !seen.contains(&c.type_id()) {
                stack.push(c);
            }
        }
    }
    seen
}
