//! R5: reference JSON writer, from the documented shape (C08).

use crate::reggen::{PField, PType};
use scale_info::{PortableRegistry, TypeDef, TypeDefPrimitive};
use serde_json::{json, Map, Value};

pub const VOCAB: [&str; 15] = [
    "types", "id", "type", "path", "params", "def", "docs", "name", "typeName", "index", "fields",
    "variants", "len", "bit_store_type", "bit_order_type",
];
pub const TAGS: [&str; 8] =
    ["composite", "variant", "sequence", "array", "tuple", "primitive", "compact", "bitsequence"];

fn strs(v: &[String]) -> Value {
    Value::Array(v.iter().map(|s| Value::String(s.clone())).collect())
}

fn field(f: &PField) -> Value {
    let mut m = Map::new();
    if let Some(n) = &f.name {
        m.insert("name".into(), Value::String(n.clone()));
    }
    m.insert("type".into(), json!(f.ty.id));
    if let Some(n) = &f.type_name {
        m.insert("typeName".into(), Value::String(n.clone()));
    }
    if !f.docs.is_empty() {
        m.insert("docs".into(), strs(&f.docs));
    }
    Value::Object(m)
}

fn fields_into(m: &mut Map<String, Value>, fs: &[PField]) {
    if !fs.is_empty() {
        m.insert("fields".into(), Value::Array(fs.iter().map(field).collect()));
    }
}

pub fn prim_name(p: &TypeDefPrimitive) -> &'static str {
    use TypeDefPrimitive::*;
    match p {
        Bool => "bool",
        Char => "char",
        Str => "str",
        U8 => "u8",
        U16 => "u16",
        U32 => "u32",
        U64 => "u64",
        U128 => "u128",
        U256 => "u256",
        I8 => "i8",
        I16 => "i16",
        I32 => "i32",
        I64 => "i64",
        I128 => "i128",
        I256 => "i256",
    }
}

pub fn ty(t: &PType) -> Value {
    let mut m = Map::new();
    if !t.path.segments.is_empty() {
        m.insert("path".into(), strs(&t.path.segments));
    }
    if !t.type_params.is_empty() {
        m.insert(
            "params".into(),
            Value::Array(
                t.type_params
                    .iter()
                    .map(|p| {
                        json!({"name": p.name, "type": match &p.ty { Some(i) => json!(i.id), None => Value::Null }})
                    })
                    .collect(),
            ),
        );
    }
    let def = match &t.type_def {
        TypeDef::Composite(c) => {
            let mut d = Map::new();
            fields_into(&mut d, &c.fields);
            json!({"composite": Value::Object(d)})
        }
        TypeDef::Variant(v) => {
            let mut d = Map::new();
            if !v.variants.is_empty() {
                d.insert(
                    "variants".into(),
                    Value::Array(
                        v.variants
                            .iter()
                            .map(|var| {
                                let mut vm = Map::new();
                                vm.insert("name".into(), Value::String(var.name.clone()));
                                fields_into(&mut vm, &var.fields);
                                vm.insert("index".into(), json!(var.index));
                                if !var.docs.is_empty() {
                                    vm.insert("docs".into(), strs(&var.docs));
                                }
                                Value::Object(vm)
                            })
                            .collect(),
                    ),
                );
            }
            json!({"variant": Value::Object(d)})
        }
        TypeDef::Sequence(s) => json!({"sequence": {"type": s.type_param.id}}),
        TypeDef::Array(a) => json!({"array": {"len": a.len, "type": a.type_param.id}}),
        TypeDef::Tuple(t) => json!({"tuple": t.fields.iter().map(|i| i.id).collect::<Vec<u32>>()}),
        TypeDef::Primitive(p) => json!({"primitive": prim_name(p)}),
        TypeDef::Compact(c) => json!({"compact": {"type": c.type_param.id}}),
        TypeDef::BitSequence(b) => {
            json!({"bitsequence": {"bit_store_type": b.bit_store_type.id, "bit_order_type": b.bit_order_type.id}})
        }
    };
    m.insert("def".into(), def);
    if !t.docs.is_empty() {
        m.insert("docs".into(), strs(&t.docs));
    }
    Value::Object(m)
}

pub fn registry(r: &PortableRegistry) -> Value {
    json!({"types": r.types.iter().map(|t| json!({"id": t.id, "type": ty(&t.ty)})).collect::<Vec<_>>()})
}

/// Every object key occurring anywhere in `v` that is neither in the vocabulary nor a
/// definition tag in `def` position.
pub fn unknown_keys(v: &Value, under_def: bool, out: &mut Vec<String>) {
    match v {
        Value::Object(m) => {
            for (k, x) in m {
                let ok = if under_def { TAGS.contains(&k.as_str()) } else { VOCAB.contains(&k.as_str()) };
                if !ok {
                    out.push(k.clone());
                }
                unknown_keys(x, k == "def" && !under_def, out);
            }
        }
        Value::Array(a) => {
            for x in a {
                unknown_keys(x, false, out);
            }
        }
        _ => {}
    }
}
