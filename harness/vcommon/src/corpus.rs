//! Corpus entry: one Rust type with type info, its declared identity, its canonical identity
//! (computed by the generator from the property text), and optionally a value sampler.

use crate::prng::Rng;
use crate::val::Val;
use scale_info::MetaType;
use std::any::TypeId;

pub struct Entry {
    /// Rust source text of the type
    pub text: &'static str,
    pub meta: fn() -> MetaType,
    /// TypeId::of::<<T as TypeInfo>::Identity>() taken from the trait, not from MetaType
    pub did: fn() -> TypeId,
    /// canonical identity, aliases resolved at the top only
    pub shallow: &'static str,
    /// canonical identity, aliases resolved at every level
    pub deep: &'static str,
    /// number of alias constructors stacked at the top of the type (wrappers, Vec/String/PhantomData ...)
    pub alias_layers: u32,
    /// encode a random value and give its model
    pub sample: Option<fn(&mut Rng) -> (Vec<u8>, Val)>,
    /// attribute kinds used by a generated definition (comma separated), empty for built-ins
    pub tags: &'static str,
    /// generated definition (C03) rather than a built-in type expression (C04)
    pub derived: bool,
    /// part of the seed-independent core corpus
    pub core: bool,
}

#[macro_export]
macro_rules! entry {
    ($t:ty, $sh:expr, $dp:expr, $al:expr, enc, $derived:expr, $core:expr, $tags:expr) => {
        $crate::corpus::Entry {
            text: stringify!($t),
            meta: || ::scale_info::meta_type::<$t>(),
            did: || ::std::any::TypeId::of::<<$t as ::scale_info::TypeInfo>::Identity>(),
            shallow: $sh,
            deep: $dp,
            alias_layers: $al,
            sample: Some(|r| {
                let v = <$t as $crate::sample::Sample>::sample(r, 3);
                (::scale::Encode::encode(&v), $crate::sample::Model::model(&v))
            }),
            tags: $tags,
            derived: $derived,
            core: $core,
        }
    };
    ($t:ty, $sh:expr, $dp:expr, $al:expr, noenc, $derived:expr, $core:expr, $tags:expr) => {
        $crate::corpus::Entry {
            text: stringify!($t),
            meta: || ::scale_info::meta_type::<$t>(),
            did: || ::std::any::TypeId::of::<<$t as ::scale_info::TypeInfo>::Identity>(),
            shallow: $sh,
            deep: $dp,
            alias_layers: $al,
            sample: None,
            tags: $tags,
            derived: $derived,
            core: $core,
        }
    };
}

impl Entry {
    /// An entry for a type found by an impl probe at run time (its MetaType and identity are kept by the caller).
    pub fn probe(text: &'static str) -> Entry {
        Entry {
            text,
            meta: || unreachable!("probed entries carry their MetaType outside the entry"),
            did: || unreachable!("probed entries carry their identity outside the entry"),
            shallow: text,
            deep: text,
            alias_layers: 0,
            sample: None,
            tags: "",
            derived: false,
            core: false,
        }
    }
}
